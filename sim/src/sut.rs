//! The store under test on a choice of backends, with restart / crash and observation helpers.

use std::collections::BTreeMap;

use iroh_docs::{
    store::{Query, Store},
    NamespaceId, SignedEntry,
};
use serde::{Deserialize, Serialize};

use crate::{
    disk::{Loss, SimDisk},
    model::RefDoc,
    runner::{Res, Violation},
    world::{ent_of, world, Ent},
};

#[derive(Serialize, Deserialize, Clone, Copy, Debug, PartialEq, Eq)]
pub enum Backend {
    /// `Store::memory()` (redb's in-memory backend)
    Mem,
    /// `Store` on `SimDisk`
    Disk,
    /// `Store::persistent(path)` on a real file under /dev/shm
    File,
}

pub struct Sut {
    pub store: Option<Store>,
    pub backend: Backend,
    pub disk: Option<SimDisk>,
    pub path: Option<std::path::PathBuf>,
    pub restarts: u64,
}

pub fn harness(msg: impl Into<String>) -> Violation {
    Violation::new("harness/error", msg)
}

fn scratch_path() -> std::path::PathBuf {
    use std::sync::atomic::{AtomicU64, Ordering};
    static N: AtomicU64 = AtomicU64::new(0);
    let dir = std::path::PathBuf::from(format!("/dev/shm/verif-sim-{}", std::process::id()));
    std::fs::create_dir_all(&dir).ok();
    dir.join(format!("db-{}.redb", N.fetch_add(1, Ordering::Relaxed)))
}

pub fn cleanup_scratch() {
    let dir = std::path::PathBuf::from(format!("/dev/shm/verif-sim-{}", std::process::id()));
    std::fs::remove_dir_all(dir).ok();
}

impl Sut {
    pub fn new(backend: Backend) -> Res<Sut> {
        let mut s = Sut { store: None, backend, disk: None, path: None, restarts: 0 };
        match backend {
            Backend::Mem => s.store = Some(Store::memory()),
            Backend::Disk => {
                let d = SimDisk::new();
                s.store = Some(Store::verif_with_backend(d.clone()).map_err(|e| harness(format!("create on simdisk: {e:#}")))?);
                s.disk = Some(d);
            }
            Backend::File => {
                let p = scratch_path();
                s.store = Some(Store::persistent(&p).map_err(|e| harness(format!("create file store: {e:#}")))?);
                s.path = Some(p);
            }
        }
        Ok(s)
    }

    pub fn from_image(img: Vec<u8>) -> Result<Sut, String> {
        let d = SimDisk::from_image(img);
        let store = Store::verif_with_backend(d.clone()).map_err(|e| format!("{e:#}"))?;
        Ok(Sut { store: Some(store), backend: Backend::Disk, disk: Some(d), path: None, restarts: 0 })
    }

    pub fn store(&mut self) -> &mut Store {
        self.store.as_mut().expect("store present")
    }

    pub fn can_restart(&self) -> bool {
        self.backend != Backend::Mem
    }

    /// Clean restart: drop the store (which flushes) and reopen from what is on disk.
    /// `open-fails/clean` if the reopened store cannot be opened.
    pub fn restart_clean(&mut self) -> Res {
        match self.backend {
            Backend::Mem => Ok(()),
            Backend::Disk => {
                drop(self.store.take());
                let img = self.disk.as_ref().unwrap().image();
                let d = SimDisk::from_image(img);
                let st = Store::verif_with_backend(d.clone())
                    .map_err(|e| Violation::new("open-fails/clean", format!("reopen after clean shutdown failed: {e:#}")))?;
                self.store = Some(st);
                self.disk = Some(d);
                self.restarts += 1;
                Ok(())
            }
            Backend::File => {
                drop(self.store.take());
                let p = self.path.clone().unwrap();
                let st = Store::persistent(&p)
                    .map_err(|e| Violation::new("open-fails/clean", format!("reopen after clean shutdown failed: {e:#}")))?;
                self.store = Some(st);
                self.restarts += 1;
                Ok(())
            }
        }
    }

    /// Crash (Disk: loss model; File: copy the file as it is, i.e. L1) and reopen.
    pub fn crash(&mut self, loss: Loss) -> Res {
        match self.backend {
            Backend::Mem => Ok(()),
            Backend::Disk => {
                let img = self.disk.as_ref().unwrap().crash(loss);
                drop(self.store.take());
                let d = SimDisk::from_image(img);
                let st = Store::verif_with_backend(d.clone())
                    .map_err(|e| Violation::new("open-fails/crash", format!("reopen after crash ({loss:?}) failed: {e:#}")))?;
                self.store = Some(st);
                self.disk = Some(d);
                self.restarts += 1;
                Ok(())
            }
            Backend::File => {
                let p = self.path.clone().unwrap();
                let copy = scratch_path();
                std::fs::copy(&p, &copy).map_err(|e| harness(format!("copy db file: {e}")))?;
                drop(self.store.take());
                std::fs::remove_file(&p).ok();
                let st = Store::persistent(&copy)
                    .map_err(|e| Violation::new("open-fails/crash", format!("reopen of copied file failed: {e:#}")))?;
                self.store = Some(st);
                self.path = Some(copy);
                self.restarts += 1;
                Ok(())
            }
        }
    }
}

impl Drop for Sut {
    fn drop(&mut self) {
        drop(self.store.take());
        if let Some(p) = self.path.take() {
            std::fs::remove_file(p).ok();
        }
    }
}

/// Everything a document holds, read through the public API.
pub struct Dump {
    pub doc: RefDoc,
    /// Entries that are not byte-identical to any entry this world can produce.
    pub alien: Vec<String>,
    pub raw: Vec<SignedEntry>,
}

pub fn dump_ns(store: &mut Store, d: u8, ns: NamespaceId) -> Result<Dump, String> {
    let mut doc = RefDoc::default();
    let mut alien = Vec::new();
    let mut raw = Vec::new();
    let it = store.get_many(ns, Query::all().include_empty()).map_err(|e| format!("get_many: {e:#}"))?;
    for e in it {
        let e = e.map_err(|e| format!("get_many item: {e:#}"))?;
        match ent_of(d, &e) {
            Some(ent) => {
                doc.0.insert((ent.a, ent.k.clone()), ent);
            }
            None => alien.push(format!("{:?}", e.entry())),
        }
        raw.push(e);
    }
    Ok(Dump { doc, alien, raw })
}

pub fn dump(store: &mut Store, d: u8) -> Result<Dump, String> {
    dump_ns(store, d, world().doc_id(d))
}

/// Compare a dump with the model; returns a violation of class `<oracle>/<kind>`.
pub fn compare(oracle: &str, what: &str, got: &Dump, want: &RefDoc) -> Res {
    if !got.alien.is_empty() {
        return Err(Violation::new(format!("{oracle}/alien"), format!("{what}: store holds entries nobody wrote: {:?}", got.alien)));
    }
    if &got.doc == want {
        return Ok(());
    }
    let extra: Vec<String> = got.doc.0.iter().filter(|(k, v)| want.0.get(*k) != Some(*v)).map(|(_, v)| v.short()).collect();
    let missing: Vec<String> = want.0.iter().filter(|(k, v)| got.doc.0.get(*k) != Some(*v)).map(|(_, v)| v.short()).collect();
    let kind = match (extra.is_empty(), missing.is_empty()) {
        (false, true) => "extra",
        (true, false) => "missing",
        _ => "differs",
    };
    Err(Violation::new(
        format!("{oracle}/{kind}"),
        format!("{what}: held={} expected={} unexpected={:?} missing={:?}", got.doc.short(), want.short(), extra, missing),
    ))
}

/// Heads as reported by the store: author index -> timestamp. Unknown authors are reported as 255.
pub fn heads(store: &mut Store, d: u8) -> Result<BTreeMap<u8, (u64, Vec<u8>)>, String> {
    let w = world();
    let mut out = BTreeMap::new();
    let it = store.get_latest_for_each_author(w.doc_id(d)).map_err(|e| format!("heads: {e:#}"))?;
    for r in it {
        let (a, ts, key) = r.map_err(|e| format!("heads item: {e:#}"))?;
        out.insert(w.author_index(&a).unwrap_or(255), (ts, key));
    }
    Ok(out)
}

pub fn ensure_doc(store: &mut Store, d: u8) -> Res {
    let w = world();
    store
        .import_namespace(iroh_docs::Capability::Write(w.docs[d as usize].clone()))
        .map_err(|e| harness(format!("import namespace: {e:#}")))?;
    Ok(())
}

pub fn ents_short(v: &[Ent]) -> String {
    v.iter().map(|e| e.short()).collect::<Vec<_>>().join(",")
}


/// Rewrite the database file of a file-backed store the way iroh-docs 0.94..=0.98 (redb 2.x)
/// wrote it: same rows, but `records-1`, `records-by-key-1` and `latest-by-author-1` carry the
/// old type tag of variable-width tuples (written with redb 3 through its `Legacy` wrapper);
/// the derived tables are kept or left out. Then open it through `Store::persistent`.
pub fn rewrite_in_old_format(sut: &mut Sut, keep_heads: bool, keep_by_key: bool) -> Res {
    use redb::{ReadableDatabase as _, ReadableMultimapTable as _, ReadableTable as _};
    type RecK<'a> = (&'a [u8; 32], &'a [u8; 32], &'a [u8]);
    type RecV<'a> = (u64, &'a [u8; 64], &'a [u8; 64], u64, &'a [u8; 32]);
    type LatK<'a> = (&'a [u8; 32], &'a [u8; 32]);
    type LatV<'a> = (u64, &'a [u8]);
    type ByK<'a> = (&'a [u8; 32], &'a [u8], &'a [u8; 32]);
    let h = |e: String| harness(format!("old-format rewrite: {e}"));
    drop(sut.store.take());
    let path = sut.path.clone().ok_or_else(|| harness("old-format rewrite needs a file-backed store"))?;
    // read every row with plain redb 4
    let mut authors: Vec<([u8; 32], [u8; 32])> = vec![];
    let mut namespaces: Vec<([u8; 32], u8, [u8; 32])> = vec![];
    let mut policies: Vec<([u8; 32], Vec<u8>)> = vec![];
    let mut peers: Vec<([u8; 32], u64, [u8; 32])> = vec![];
    let mut records: Vec<([u8; 32], [u8; 32], Vec<u8>, u64, [u8; 64], [u8; 64], u64, [u8; 32])> = vec![];
    let mut latest: Vec<([u8; 32], [u8; 32], u64, Vec<u8>)> = vec![];
    let mut by_key: Vec<([u8; 32], Vec<u8>, [u8; 32])> = vec![];
    {
        let db = redb::Database::create(&path).map_err(|e| h(e.to_string()))?;
        let tx = db.begin_read().map_err(|e| h(e.to_string()))?;
        let t = tx.open_table(redb::TableDefinition::<&[u8; 32], &[u8; 32]>::new("authors-1")).map_err(|e| h(e.to_string()))?;
        for r in t.iter().map_err(|e| h(e.to_string()))? {
            let (k, v) = r.map_err(|e| h(e.to_string()))?;
            authors.push((*k.value(), *v.value()));
        }
        let t = tx.open_table(redb::TableDefinition::<&[u8; 32], (u8, &[u8; 32])>::new("namespaces-2")).map_err(|e| h(e.to_string()))?;
        for r in t.iter().map_err(|e| h(e.to_string()))? {
            let (k, v) = r.map_err(|e| h(e.to_string()))?;
            let (kind, bytes) = v.value();
            namespaces.push((*k.value(), kind, *bytes));
        }
        let t = tx.open_table(redb::TableDefinition::<&[u8; 32], &[u8]>::new("download-policy-1")).map_err(|e| h(e.to_string()))?;
        for r in t.iter().map_err(|e| h(e.to_string()))? {
            let (k, v) = r.map_err(|e| h(e.to_string()))?;
            policies.push((*k.value(), v.value().to_vec()));
        }
        let t = tx.open_multimap_table(redb::MultimapTableDefinition::<&[u8; 32], (u64, &[u8; 32])>::new("sync-peers-1")).map_err(|e| h(e.to_string()))?;
        for r in t.iter().map_err(|e| h(e.to_string()))? {
            let (k, vs) = r.map_err(|e| h(e.to_string()))?;
            for v in vs {
                let v = v.map_err(|e| h(e.to_string()))?;
                let (n, p) = v.value();
                peers.push((*k.value(), n, *p));
            }
        }
        let t = tx.open_table(redb::TableDefinition::<RecK, RecV>::new("records-1")).map_err(|e| h(e.to_string()))?;
        for r in t.iter().map_err(|e| h(e.to_string()))? {
            let (k, v) = r.map_err(|e| h(e.to_string()))?;
            let (ns, au, key) = k.value();
            let (ts, s1, s2, len, hash) = v.value();
            records.push((*ns, *au, key.to_vec(), ts, *s1, *s2, len, *hash));
        }
        let t = tx.open_table(redb::TableDefinition::<LatK, LatV>::new("latest-by-author-1")).map_err(|e| h(e.to_string()))?;
        for r in t.iter().map_err(|e| h(e.to_string()))? {
            let (k, v) = r.map_err(|e| h(e.to_string()))?;
            let (ns, au) = k.value();
            let (ts, key) = v.value();
            latest.push((*ns, *au, ts, key.to_vec()));
        }
        let t = tx.open_table(redb::TableDefinition::<ByK, ()>::new("records-by-key-1")).map_err(|e| h(e.to_string()))?;
        for r in t.iter().map_err(|e| h(e.to_string()))? {
            let (k, _) = r.map_err(|e| h(e.to_string()))?;
            let (ns, key, au) = k.value();
            by_key.push((*ns, key.to_vec(), *au));
        }
    }
    std::fs::remove_file(&path).ok();
    // write them with redb 3, tuple tables under the old type tag
    let old = scratch_path();
    {
        use redb_v3::{Legacy, MultimapTableDefinition, TableDefinition};
        let db = redb_v3::Database::create(&old).map_err(|e| h(e.to_string()))?;
        let tx = db.begin_write().map_err(|e| h(e.to_string()))?;
        {
            let mut t = tx.open_table(TableDefinition::<&[u8; 32], &[u8; 32]>::new("authors-1")).map_err(|e| h(e.to_string()))?;
            for (k, v) in &authors {
                t.insert(k, v).map_err(|e| h(e.to_string()))?;
            }
            let mut t = tx.open_table(TableDefinition::<&[u8; 32], (u8, &[u8; 32])>::new("namespaces-2")).map_err(|e| h(e.to_string()))?;
            for (k, kind, b) in &namespaces {
                t.insert(k, (*kind, b)).map_err(|e| h(e.to_string()))?;
            }
            let mut t = tx.open_table(TableDefinition::<&[u8; 32], &[u8]>::new("download-policy-1")).map_err(|e| h(e.to_string()))?;
            for (k, v) in &policies {
                t.insert(k, &v[..]).map_err(|e| h(e.to_string()))?;
            }
            let mut t = tx.open_multimap_table(MultimapTableDefinition::<&[u8; 32], (u64, &[u8; 32])>::new("sync-peers-1")).map_err(|e| h(e.to_string()))?;
            for (k, n, p) in &peers {
                t.insert(k, (*n, p)).map_err(|e| h(e.to_string()))?;
            }
            let mut t = tx.open_table(TableDefinition::<Legacy<RecK>, RecV>::new("records-1")).map_err(|e| h(e.to_string()))?;
            for (ns, au, key, ts, s1, s2, len, hash) in &records {
                t.insert((ns, au, &key[..]), (*ts, s1, s2, *len, hash)).map_err(|e| h(e.to_string()))?;
            }
            if keep_heads {
                let mut t = tx.open_table(TableDefinition::<LatK, Legacy<LatV>>::new("latest-by-author-1")).map_err(|e| h(e.to_string()))?;
                for (ns, au, ts, key) in &latest {
                    t.insert((ns, au), (*ts, &key[..])).map_err(|e| h(e.to_string()))?;
                }
            }
            if keep_by_key {
                let mut t = tx.open_table(TableDefinition::<Legacy<ByK>, ()>::new("records-by-key-1")).map_err(|e| h(e.to_string()))?;
                for (ns, key, au) in &by_key {
                    t.insert((ns, &key[..], au), ()).map_err(|e| h(e.to_string()))?;
                }
            }
        }
        tx.commit().map_err(|e| h(e.to_string()))?;
    }
    let st = Store::persistent(&old).map_err(|e| Violation::new("open-fails/old-format", format!("opening a database file in the redb 2.x format failed: {e:#}")))?;
    let mut backup = old.clone().into_os_string();
    backup.push(".backup-redb-v2-tuples");
    std::fs::remove_file(std::path::PathBuf::from(backup)).ok();
    sut.store = Some(st);
    sut.path = Some(old);
    sut.restarts += 1;
    Ok(())
}
