//! The store under test on a choice of backends, with restart / crash and observation helpers.

use std::collections::BTreeMap;

use iroh_docs::{
    store::{Query, Store},
    NamespaceId, SignedEntry,
};
use serde::{Deserialize, Serialize};

use crate::{
    disk::{Loss, SimDisk},
    model::RefDoc,
    runner::{Res, Violation},
    world::{ent_of, world, Ent},
};

#[derive(Serialize, Deserialize, Clone, Copy, Debug, PartialEq, Eq)]
pub enum Backend {
    /// `Store::memory()` (redb's in-memory backend)
    Mem,
    /// `Store` on `SimDisk`
    Disk,
    /// `Store::persistent(path)` on a real file under /dev/shm
    File,
}

pub struct Sut {
    pub store: Option<Store>,
    pub backend: Backend,
    pub disk: Option<SimDisk>,
    pub path: Option<std::path::PathBuf>,
    pub restarts: u64,
}

pub fn harness(msg: impl Into<String>) -> Violation {
    Violation::new("harness/error", msg)
}

fn scratch_path() -> std::path::PathBuf {
    use std::sync::atomic::{AtomicU64, Ordering};
    static N: AtomicU64 = AtomicU64::new(0);
    let dir = std::path::PathBuf::from(format!("/dev/shm/verif-sim-{}", std::process::id()));
    std::fs::create_dir_all(&dir).ok();
    dir.join(format!("db-{}.redb", N.fetch_add(1, Ordering::Relaxed)))
}

pub fn cleanup_scratch() {
    let dir = std::path::PathBuf::from(format!("/dev/shm/verif-sim-{}", std::process::id()));
    std::fs::remove_dir_all(dir).ok();
}

impl Sut {
    pub fn new(backend: Backend) -> Res<Sut> {
        let mut s = Sut { store: None, backend, disk: None, path: None, restarts: 0 };
        match backend {
            Backend::Mem => s.store = Some(Store::memory()),
            Backend::Disk => {
                let d = SimDisk::new();
                s.store = Some(Store::verif_with_backend(d.clone()).map_err(|e| harness(format!("create on simdisk: {e:#}")))?);
                s.disk = Some(d);
            }
            Backend::File => {
                let p = scratch_path();
                s.store = Some(Store::persistent(&p).map_err(|e| harness(format!("create file store: {e:#}")))?);
                s.path = Some(p);
            }
        }
        Ok(s)
    }

    pub fn from_image(img: Vec<u8>) -> Result<Sut, String> {
        let d = SimDisk::from_image(img);
        let store = Store::verif_with_backend(d.clone()).map_err(|e| format!("{e:#}"))?;
        Ok(Sut { store: Some(store), backend: Backend::Disk, disk: Some(d), path: None, restarts: 0 })
    }

    pub fn store(&mut self) -> &mut Store {
        self.store.as_mut().expect("store present")
    }

    pub fn can_restart(&self) -> bool {
        self.backend != Backend::Mem
    }

    /// Clean restart: drop the store (which flushes) and reopen from what is on disk.
    /// `open-fails/clean` if the reopened store cannot be opened.
    pub fn restart_clean(&mut self) -> Res {
        match self.backend {
            Backend::Mem => Ok(()),
            Backend::Disk => {
                drop(self.store.take());
                let img = self.disk.as_ref().unwrap().image();
                let d = SimDisk::from_image(img);
                let st = Store::verif_with_backend(d.clone())
                    .map_err(|e| Violation::new("open-fails/clean", format!("reopen after clean shutdown failed: {e:#}")))?;
                self.store = Some(st);
                self.disk = Some(d);
                self.restarts += 1;
                Ok(())
            }
            Backend::File => {
                drop(self.store.take());
                let p = self.path.clone().unwrap();
                let st = Store::persistent(&p)
                    .map_err(|e| Violation::new("open-fails/clean", format!("reopen after clean shutdown failed: {e:#}")))?;
                self.store = Some(st);
                self.restarts += 1;
                Ok(())
            }
        }
    }

    /// Crash (Disk: loss model; File: copy the file as it is, i.e. L1) and reopen.
    pub fn crash(&mut self, loss: Loss) -> Res {
        match self.backend {
            Backend::Mem => Ok(()),
            Backend::Disk => {
                let img = self.disk.as_ref().unwrap().crash(loss);
                drop(self.store.take());
                let d = SimDisk::from_image(img);
                let st = Store::verif_with_backend(d.clone())
                    .map_err(|e| Violation::new("open-fails/crash", format!("reopen after crash ({loss:?}) failed: {e:#}")))?;
                self.store = Some(st);
                self.disk = Some(d);
                self.restarts += 1;
                Ok(())
            }
            Backend::File => {
                let p = self.path.clone().unwrap();
                let copy = scratch_path();
                std::fs::copy(&p, &copy).map_err(|e| harness(format!("copy db file: {e}")))?;
                drop(self.store.take());
                std::fs::remove_file(&p).ok();
                let st = Store::persistent(&copy)
                    .map_err(|e| Violation::new("open-fails/crash", format!("reopen of copied file failed: {e:#}")))?;
                self.store = Some(st);
                self.path = Some(copy);
                self.restarts += 1;
                Ok(())
            }
        }
    }
}

impl Drop for Sut {
    fn drop(&mut self) {
        drop(self.store.take());
        if let Some(p) = self.path.take() {
            std::fs::remove_file(p).ok();
        }
    }
}

/// Everything a document holds, read through the public API.
pub struct Dump {
    pub doc: RefDoc,
    /// Entries that are not byte-identical to any entry this world can produce.
    pub alien: Vec<String>,
    pub raw: Vec<SignedEntry>,
}

pub fn dump_ns(store: &mut Store, d: u8, ns: NamespaceId) -> Result<Dump, String> {
    let mut doc = RefDoc::default();
    let mut alien = Vec::new();
    let mut raw = Vec::new();
    let it = store.get_many(ns, Query::all().include_empty()).map_err(|e| format!("get_many: {e:#}"))?;
    for e in it {
        let e = e.map_err(|e| format!("get_many item: {e:#}"))?;
        match ent_of(d, &e) {
            Some(ent) => {
                doc.0.insert((ent.a, ent.k.clone()), ent);
            }
            None => alien.push(format!("{:?}", e.entry())),
        }
        raw.push(e);
    }
    Ok(Dump { doc, alien, raw })
}

pub fn dump(store: &mut Store, d: u8) -> Result<Dump, String> {
    dump_ns(store, d, world().doc_id(d))
}

/// Compare a dump with the model; returns a violation of class `<oracle>/<kind>`.
pub fn compare(oracle: &str, what: &str, got: &Dump, want: &RefDoc) -> Res {
    if !got.alien.is_empty() {
        return Err(Violation::new(format!("{oracle}/alien"), format!("{what}: store holds entries nobody wrote: {:?}", got.alien)));
    }
    if &got.doc == want {
        return Ok(());
    }
    let extra: Vec<String> = got.doc.0.iter().filter(|(k, v)| want.0.get(*k) != Some(*v)).map(|(_, v)| v.short()).collect();
    let missing: Vec<String> = want.0.iter().filter(|(k, v)| got.doc.0.get(*k) != Some(*v)).map(|(_, v)| v.short()).collect();
    let kind = match (extra.is_empty(), missing.is_empty()) {
        (false, true) => "extra",
        (true, false) => "missing",
        _ => "differs",
    };
    Err(Violation::new(
        format!("{oracle}/{kind}"),
        format!("{what}: held={} expected={} unexpected={:?} missing={:?}", got.doc.short(), want.short(), extra, missing),
    ))
}

/// Heads as reported by the store: author index -> timestamp. Unknown authors are reported as 255.
pub fn heads(store: &mut Store, d: u8) -> Result<BTreeMap<u8, (u64, Vec<u8>)>, String> {
    let w = world();
    let mut out = BTreeMap::new();
    let it = store.get_latest_for_each_author(w.doc_id(d)).map_err(|e| format!("heads: {e:#}"))?;
    for r in it {
        let (a, ts, key) = r.map_err(|e| format!("heads item: {e:#}"))?;
        out.insert(w.author_index(&a).unwrap_or(255), (ts, key));
    }
    Ok(out)
}

pub fn ensure_doc(store: &mut Store, d: u8) -> Res {
    let w = world();
    store
        .import_namespace(iroh_docs::Capability::Write(w.docs[d as usize].clone()))
        .map_err(|e| harness(format!("import namespace: {e:#}")))?;
    Ok(())
}

pub fn ents_short(v: &[Ent]) -> String {
    v.iter().map(|e| e.short()).collect::<Vec<_>>().join(",")
}
