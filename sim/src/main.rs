//! Deterministic simulation with fault injection for iroh-docs.
//!
//! `sim run --property C02 --tier quick --seed 0` | `sim replay <file>` | `sim selftest`

mod checks;
mod disk;
mod model;
mod msg;
mod node;
mod ops;
mod pipe;
mod rng;
mod runner;
mod scen;
mod sut;
mod world;

use runner::Tier;

fn usage() -> ! {
    eprintln!("usage: sim run --property <ID> [--tier quick|thorough] [--seed N] [--runs N]\n       sim replay <file>\n       sim determinism [--property <ID>]");
    std::process::exit(2)
}

fn main() {
    runner::install_panic_hook();
    let args: Vec<String> = std::env::args().skip(1).collect();
    if args.is_empty() {
        usage();
    }
    let get = |name: &str| -> Option<String> {
        args.iter().position(|a| a == name).and_then(|i| args.get(i + 1).cloned())
    };
    let code = match args[0].as_str() {
        "run" => {
            let prop = get("--property").unwrap_or_else(|| usage());
            let tier = match std::env::var("VERIF_TIER").ok().or_else(|| get("--tier")).as_deref() {
                Some("thorough") => Tier::Thorough,
                _ => Tier::Quick,
            };
            let seed: u64 = get("--seed")
                .or_else(|| std::env::var("VERIF_SEED").ok())
                .and_then(|s| s.parse().ok())
                .unwrap_or(0);
            let scale: f64 = get("--scale").and_then(|s| s.parse().ok()).unwrap_or(1.0);
            println!("VERIF_SEED={seed} property={prop} tier={}", tier.name());
            checks::run_property(&prop, tier, seed, scale)
        }
        "replay" => {
            let file = args.get(1).cloned().unwrap_or_else(|| usage());
            checks::replay(&file)
        }
        "determinism" => {
            let prop = get("--property");
            let seeds: u64 = get("--seeds").and_then(|s| s.parse().ok()).unwrap_or(200);
            checks::determinism(prop.as_deref(), seeds)
        }
        _ => usage(),
    };
    sut::cleanup_scratch();
    std::process::exit(code);
}
