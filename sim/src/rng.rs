//! The one PRNG everything is derived from (xoshiro256** seeded through splitmix64).
//!
//! A run's generator is a pure function of (VERIF_SEED, scenario tag, run index); execution of a
//! plan never draws from it.

#[derive(Clone, Debug)]
pub struct Rng {
    s: [u64; 4],
    /// index of the run this generator belongs to (0 outside batches); enumerating scenarios
    /// decode it into a combination instead of drawing one
    pub run: u64,
}

fn splitmix(x: &mut u64) -> u64 {
    *x = x.wrapping_add(0x9E37_79B9_7F4A_7C15);
    let mut z = *x;
    z = (z ^ (z >> 30)).wrapping_mul(0xBF58_476D_1CE4_E5B9);
    z = (z ^ (z >> 27)).wrapping_mul(0x94D0_49BB_1331_11EB);
    z ^ (z >> 31)
}

pub fn fnv(bytes: &[u8]) -> u64 {
    let mut h: u64 = 0xcbf2_9ce4_8422_2325;
    for b in bytes {
        h ^= *b as u64;
        h = h.wrapping_mul(0x0000_0100_0000_01B3);
    }
    h
}

impl Rng {
    pub fn new(seed: u64) -> Self {
        let mut x = seed;
        let s = [
            splitmix(&mut x),
            splitmix(&mut x),
            splitmix(&mut x),
            splitmix(&mut x),
        ];
        Rng { s, run: 0 }
    }

    /// Generator for run `run` of scenario `tag` under master seed `seed`.
    pub fn for_run(seed: u64, tag: &str, run: u64) -> Self {
        let mut x = seed ^ fnv(tag.as_bytes()).rotate_left(17);
        let a = splitmix(&mut x);
        let mut y = a ^ run.wrapping_mul(0xD6E8_FEB8_6659_FD93);
        let mut r = Rng::new(splitmix(&mut y));
        r.run = run;
        r
    }

    pub fn next_u64(&mut self) -> u64 {
        let r = self.s[1].wrapping_mul(5).rotate_left(7).wrapping_mul(9);
        let t = self.s[1] << 17;
        self.s[2] ^= self.s[0];
        self.s[3] ^= self.s[1];
        self.s[1] ^= self.s[2];
        self.s[0] ^= self.s[3];
        self.s[2] ^= t;
        self.s[3] = self.s[3].rotate_left(45);
        r
    }

    /// Uniform in `0..n` (n > 0).
    pub fn below(&mut self, n: u64) -> u64 {
        debug_assert!(n > 0);
        // multiply-shift; bias is irrelevant here
        ((self.next_u64() as u128 * n as u128) >> 64) as u64
    }

    pub fn usize_below(&mut self, n: usize) -> usize {
        self.below(n as u64) as usize
    }

    /// Uniform in `lo..=hi`.
    pub fn range(&mut self, lo: u64, hi: u64) -> u64 {
        lo + self.below(hi - lo + 1)
    }

    pub fn urange(&mut self, lo: usize, hi: usize) -> usize {
        self.range(lo as u64, hi as u64) as usize
    }

    /// True with probability num/den.
    pub fn chance(&mut self, num: u64, den: u64) -> bool {
        self.below(den) < num
    }

    pub fn pick<'a, T>(&mut self, items: &'a [T]) -> &'a T {
        &items[self.usize_below(items.len())]
    }

    pub fn shuffle<T>(&mut self, items: &mut [T]) {
        for i in (1..items.len()).rev() {
            let j = self.usize_below(i + 1);
            items.swap(i, j);
        }
    }

    /// Pick an index according to integer weights.
    pub fn weighted(&mut self, weights: &[u32]) -> usize {
        let total: u64 = weights.iter().map(|w| *w as u64).sum();
        let mut x = self.below(total.max(1));
        for (i, w) in weights.iter().enumerate() {
            if x < *w as u64 {
                return i;
            }
            x -= *w as u64;
        }
        weights.len() - 1
    }
}
