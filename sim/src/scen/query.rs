//! Scenario `query` (C05): random queries against states reached through pruning histories,
//! restarts and derived-index rebuilds, checked against a brute-force evaluator.

use iroh_docs::store::{Query, SortBy, SortDirection, Store};
use serde::{Deserialize, Serialize};

use crate::{
    model::RefDoc,
    ops::{offer, Path},
    rng::Rng,
    runner::{block_on_sim, shrink_vec, Cx, Res, Scenario, Tier, Violation},
    sut::{ensure_doc, harness, Backend, Sut},
    world::{ent_of, gen_ent, gen_key, hexbytes, world, Ent, GenCfg},
};

/// `large`: documents of several hundred entries, offsets and limits around 255/256/257, 1000 and
/// the number of entries held.
pub struct QueryScen {
    pub large: bool,
}

#[derive(Serialize, Deserialize, Clone, Debug, PartialEq, Eq)]
pub enum KeyF {
    Any,
    Exact(#[serde(with = "hexbytes")] Vec<u8>),
    Prefix(#[serde(with = "hexbytes")] Vec<u8>),
}

impl KeyF {
    fn matches(&self, k: &[u8]) -> bool {
        match self {
            KeyF::Any => true,
            KeyF::Exact(e) => e == k,
            KeyF::Prefix(p) => k.starts_with(p),
        }
    }
}

#[derive(Serialize, Deserialize, Clone, Debug)]
pub struct QSpec {
    pub d: u8,
    pub latest: bool,
    pub author: Option<u8>,
    pub kf: KeyF,
    pub by_key: bool,
    pub desc: bool,
    pub include_empty: bool,
    pub offset: u64,
    pub limit: Option<u64>,
    /// permutation (Lehmer code) of the builder calls offset / author / key filter / include-empty / limit / sort
    #[serde(default)]
    pub order: u16,
    /// flat queries: start the builder from a shortcut constructor when the filter allows it
    /// (Query::author / Query::key_exact / Query::key_prefix instead of Query::all)
    #[serde(default)]
    pub shortcut: bool,
}

#[derive(Serialize, Deserialize, Clone, Debug)]
pub enum QStep {
    Offer { i: usize, path: Path },
    Restart,
    /// delete the by-key index / heads table with plain redb and reopen (migrations rebuild them)
    DropDerived { by_key: bool, heads: bool },
    Query(QSpec),
    /// remove one document of the store and create it again, empty (the others must not notice)
    RemoveDoc { d: u8 },
    Exact { d: u8, a: u8, #[serde(with = "hexbytes")] k: Vec<u8>, include_empty: bool },
    /// another read of the store between writes and queries: 0 list documents, 1 list authors,
    /// 2 content hashes, 3 heads, 4 flush, 5 peers, 6 policy
    OtherRead { kind: u8 },
    /// an operation that is refused and must change nothing: 0 removal of a document that is open,
    /// 1 a policy for a document that does not exist, 2 a peer registration for a document that
    /// does not exist, 3 opening a document that does not exist
    Refused { d: u8, kind: u8 },
}

#[derive(Serialize, Deserialize, Clone, Debug)]
pub struct QueryPlan {
    pub seed: u64,
    pub backend: Backend,
    pub items: Vec<Ent>,
    pub steps: Vec<QStep>,
}

fn gen_kf(rng: &mut Rng, items: &[Ent]) -> KeyF {
    let key = |rng: &mut Rng| {
        if !items.is_empty() && rng.chance(1, 2) {
            let k = &rng.pick(items).k;
            let cut = rng.urange(0, k.len());
            k[..cut].to_vec()
        } else {
            gen_key(rng, 3)
        }
    };
    match rng.below(3) {
        0 => KeyF::Any,
        1 => KeyF::Exact(if !items.is_empty() && rng.chance(2, 3) { rng.pick(items).k.clone() } else { key(rng) }),
        _ => KeyF::Prefix(key(rng)),
    }
}

fn gen_q(rng: &mut Rng, g: &GenCfg, items: &[Ent]) -> QSpec {
    QSpec {
        d: rng.below(g.docs as u64) as u8,
        latest: rng.chance(1, 3),
        author: if rng.chance(1, 2) { None } else { Some(rng.below((g.authors as u64 + 1).min(crate::world::N_AUTHORS_ALL as u64)) as u8) },
        kf: gen_kf(rng, items),
        by_key: rng.chance(1, 2),
        desc: rng.chance(1, 2),
        include_empty: rng.chance(1, 2),
        offset: if rng.chance(1, 2) { 0 } else { rng.below(4) },
        limit: if rng.chance(1, 2) { None } else { Some(rng.below(5)) },
        order: if rng.chance(1, 2) { 0 } else { rng.below(720) as u16 },
        shortcut: rng.chance(1, 4),
    }
}

fn gen_large(rng: &mut Rng, tier: Tier) -> QueryPlan {
    let g = GenCfg { docs: *rng.pick(&[1u8, 1, 2]), authors: rng.range(1, 3) as u8, max_key_len: 2, ts_values: 4, marker_pct: 15, contents: 3 };
    let n = *rng.pick(&[150usize, 257, 300, tier.pick(520, 1100)]);
    let mut items: Vec<Ent> = Vec::new();
    for _ in 0..n {
        // keys of two bytes over the whole byte range: hardly any pruning, so the documents stay large
        let k = vec![rng.below(256) as u8, rng.below(256) as u8];
        items.push(Ent { d: rng.below(g.docs as u64) as u8, a: rng.below(g.authors as u64) as u8, k, ts: rng.range(1, 4), c: if rng.chance(15, 100) { 0 } else { rng.range(1, 3) as u8 } });
    }
    let backend = if rng.chance(1, 2) { Backend::Mem } else { Backend::Disk };
    let mut steps = Vec::new();
    for i in 0..n {
        steps.push(QStep::Offer { i, path: Path::Remote });
        if backend == Backend::Disk && rng.chance(1, 400) {
            steps.push(QStep::DropDerived { by_key: rng.chance(2, 3), heads: rng.chance(1, 2) });
        }
    }
    let edge = [0u64, 1, 2, 100, 255, 256, 257, 511, 512, 1000, 1023, 1024, 1025, n as u64 - 1, n as u64, n as u64 + 1, n as u64 / 2];
    for _ in 0..rng.urange(6, 14) {
        let mut q = gen_q(rng, &g, &items);
        if rng.chance(2, 3) {
            q.kf = if rng.chance(1, 2) { KeyF::Any } else { KeyF::Prefix(vec![rng.below(256) as u8]) };
        }
        q.offset = if rng.chance(1, 3) { 0 } else { *rng.pick(&edge) };
        q.limit = if rng.chance(1, 3) { None } else { Some(*rng.pick(&edge)) };
        steps.push(QStep::Query(q));
    }
    QueryPlan { seed: rng.next_u64(), backend, items, steps }
}

impl Scenario for QueryScen {
    type Plan = QueryPlan;
    fn name(&self) -> String {
        if self.large { "query-large".into() } else { "query".into() }
    }

    fn gen(&self, rng: &mut Rng, tier: Tier) -> QueryPlan {
        if self.large {
            return gen_large(rng, tier);
        }
        let g = GenCfg { docs: *rng.pick(&[1u8, 2, 2, 3, 4]), authors: crate::world::gen_author_count(rng, 4), max_key_len: 3, ts_values: 5, marker_pct: 25, contents: 3 };
        let n = rng.urange(1, tier.pick(12, 20));
        let items: Vec<Ent> = (0..n).map(|_| gen_ent(rng, &g)).collect();
        let backend = match rng.below(10) {
            0..=4 => Backend::Mem,
            5..=8 => Backend::Disk,
            _ => Backend::File,
        };
        let mut steps = Vec::new();
        for i in 0..n {
            steps.push(QStep::Offer { i, path: if rng.chance(1, 4) { Path::InMessage } else { Path::Remote } });
            if rng.chance(1, 6) && backend != Backend::Mem {
                steps.push(QStep::Restart);
            }
            if g.docs > 1 && rng.chance(1, 12) {
                steps.push(QStep::RemoveDoc { d: rng.below(g.docs as u64) as u8 });
            }
            if rng.chance(1, 10) && backend == Backend::Disk {
                steps.push(QStep::DropDerived { by_key: rng.chance(2, 3), heads: rng.chance(1, 2) });
            }
            if rng.chance(1, 5) {
                steps.push(QStep::OtherRead { kind: rng.below(7) as u8 });
            }
            if rng.chance(1, 10) {
                steps.push(QStep::Refused { d: rng.below(g.docs as u64) as u8, kind: rng.below(4) as u8 });
            }
            if rng.chance(1, 3) || i == n - 1 {
                for _ in 0..rng.urange(1, 6) {
                    if rng.chance(1, 6) {
                        steps.push(QStep::OtherRead { kind: rng.below(7) as u8 });
                    }
                    if rng.chance(1, 5) {
                        let (d, a, k) = if rng.chance(2, 3) { let e = rng.pick(&items[..=i]); (e.d, e.a, e.k.clone()) } else { (0, 0, gen_key(rng, 3)) };
                        steps.push(QStep::Exact { d, a, k, include_empty: rng.chance(1, 2) });
                    } else {
                        steps.push(QStep::Query(gen_q(rng, &g, &items[..=i])));
                    }
                }
            }
        }
        QueryPlan { seed: rng.next_u64(), backend, items, steps }
    }

    fn exec(&self, plan: &QueryPlan, cx: &mut Cx) -> Res {
        block_on_sim(plan.seed, run(plan, cx))
    }

    fn shrink(&self, plan: &QueryPlan) -> Vec<QueryPlan> {
        let mut out = Vec::new();
        for c in shrink_vec(&plan.steps) {
            let mut p = plan.clone();
            p.steps = c;
            out.push(p);
        }
        if plan.backend != Backend::Mem && !plan.steps.iter().any(|s| matches!(s, QStep::Restart | QStep::DropDerived { .. })) {
            let mut p = plan.clone();
            p.backend = Backend::Mem;
            out.push(p);
        }
        for (si, s) in plan.steps.iter().enumerate() {
            if let QStep::Query(q) = s {
                let mut simpler = Vec::new();
                if q.offset > 0 { let mut q2 = q.clone(); q2.offset = 0; simpler.push(q2); }
                if q.limit.is_some() { let mut q2 = q.clone(); q2.limit = None; simpler.push(q2); }
                if q.author.is_some() { let mut q2 = q.clone(); q2.author = None; simpler.push(q2); }
                if q.desc { let mut q2 = q.clone(); q2.desc = false; simpler.push(q2); }
                if q.kf != KeyF::Any { let mut q2 = q.clone(); q2.kf = KeyF::Any; simpler.push(q2); }
                for q2 in simpler {
                    let mut p = plan.clone();
                    p.steps[si] = QStep::Query(q2);
                    out.push(p);
                }
            }
        }
        out
    }

    fn components(&self) -> (Vec<&'static str>, Vec<&'static str>) {
        (
            vec!["store::fs::query::QueryIterator", "store::fs::bounds (RecordsBounds, ByKeyBounds)", "store::fs::ranges", "store::util (IndexKind, LatestPerKeySelector)", "Store::get_many / get_exact", "migrations (index rebuild)", "redb"],
            vec!["disk (SimDisk / in-memory / file)", "older-version database (derived tables deleted with plain redb)"],
        )
    }

    fn rule(&self) -> String {
        if self.large {
            return "A run fills 1-2 documents with 150-1100 entries at two-byte keys over the whole byte range (1-3 authors, 15% deletion markers), optionally rebuilds the derived tables, and asks 6-14 queries whose offsets and limits are drawn from {0, 1, 2, 100, 255, 256, 257, 511, 512, 1000, 1023, 1024, 1025, n-1, n, n+1, n/2}; each is compared with a brute-force evaluation over the model.".into();
        }
        "A run builds a state of 1-2 adjacent documents through a pruning history (stale index rows), with clean restarts and derived-table drops, and interleaves random queries: kind (flat / latest-per-key) x author filter x key filter (any/exact/prefix incl. ..FF and empty prefixes) x sort key x direction x include-empty x offset x limit, and point lookups; each is compared with a brute-force evaluation over the model. Non-trivial: a restart or index rebuild happened, or the state contains pruned/superseded entries.".into()
    }
}

fn build_query(q: &QSpec) -> Query {
    let w = world();
    let dir = if q.desc { SortDirection::Desc } else { SortDirection::Asc };
    // the builder calls are made in a plan-chosen order (a builder method must not undo another)
    let mut calls: Vec<u8> = vec![0, 1, 2, 3, 4, 5];
    let mut code = q.order as usize;
    let mut order: Vec<u8> = Vec::new();
    while !calls.is_empty() {
        let i = code % calls.len();
        code /= calls.len();
        order.push(calls.remove(i));
    }
    macro_rules! apply {
        ($b:expr, $sort:expr) => {{
            let mut b = $b;
            for c in &order {
                b = match c {
                    0 => b.offset(q.offset),
                    1 => match q.author {
                        Some(a) => b.author(w.author_id(a)),
                        None => b,
                    },
                    2 => match &q.kf {
                        KeyF::Any => b,
                        KeyF::Exact(k) => b.key_exact(k),
                        KeyF::Prefix(k) => b.key_prefix(k),
                    },
                    3 => {
                        if q.include_empty {
                            b.include_empty()
                        } else {
                            b
                        }
                    }
                    4 => match q.limit {
                        Some(l) => b.limit(l),
                        None => b,
                    },
                    _ => $sort(b),
                };
            }
            b
        }};
    }
    if q.latest {
        apply!(Query::single_latest_per_key(), |b: iroh_docs::store::QueryBuilder<iroh_docs::store::SingleLatestPerKeyQuery>| b.sort_direction(dir)).build()
    } else {
        let sort = if q.by_key { SortBy::KeyAuthor } else { SortBy::AuthorKey };
        let start = if !q.shortcut {
            Query::all()
        } else {
            match (&q.kf, q.author) {
                (KeyF::Exact(k), _) => Query::key_exact(k),
                (KeyF::Prefix(k), _) => Query::key_prefix(k),
                (KeyF::Any, Some(a)) => Query::author(w.author_id(a)),
                _ => Query::all(),
            }
        };
        apply!(start, |b: iroh_docs::store::QueryBuilder<iroh_docs::store::FlatQuery>| b.sort_by(sort, dir)).build()
    }
}

fn window(v: Vec<Ent>, q: &QSpec) -> Vec<Ent> {
    let it = v.into_iter().skip(q.offset as usize);
    match q.limit {
        Some(l) => it.take(l as usize).collect(),
        None => it.collect(),
    }
}

pub fn eval_flat(all: &[Ent], q: &QSpec) -> Vec<Ent> {
    let mut m: Vec<Ent> = all
        .iter()
        .filter(|e| e.d == q.d && q.kf.matches(&e.k) && q.author.map(|a| a == e.a).unwrap_or(true) && (q.include_empty || !e.is_marker()))
        .cloned()
        .collect();
    if q.by_key {
        m.sort_by(|x, y| (&x.k, x.a).cmp(&(&y.k, y.a)));
    } else {
        m.sort_by(|x, y| (x.a, &x.k).cmp(&(y.a, &y.k)));
    }
    if q.desc {
        m.reverse();
    }
    window(m, q)
}

/// Latest-per-key: is `got` derivable? `pre_author`: author filter applied before grouping.
fn latest_ok(all: &[Ent], q: &QSpec, got: &[Ent], pre_author: bool) -> bool {
    let am = |e: &Ent| q.author.map(|a| a == e.a).unwrap_or(true);
    let pool: Vec<&Ent> = all.iter().filter(|e| e.d == q.d && q.kf.matches(&e.k) && (!pre_author || am(e))).collect();
    let mut keys: Vec<&Vec<u8>> = pool.iter().map(|e| &e.k).collect();
    keys.sort();
    keys.dedup();
    if q.desc {
        keys.reverse();
    }
    // candidates per key: all entries with the greatest timestamp
    let groups: Vec<Vec<&Ent>> = keys
        .iter()
        .map(|k| {
            let g: Vec<&Ent> = pool.iter().filter(|e| &&e.k == k).copied().collect();
            let mx = g.iter().map(|e| e.ts).max().unwrap();
            g.into_iter().filter(|e| e.ts == mx).collect()
        })
        .collect();
    // enumerate tie choices (ties are rare; cap the product)
    let mut choices: Vec<Vec<Ent>> = vec![vec![]];
    for g in groups {
        let mut next = Vec::new();
        for c in &choices {
            for e in &g {
                let mut c2 = c.clone();
                c2.push((*e).clone());
                next.push(c2);
            }
        }
        choices = next;
        if choices.len() > 512 {
            return true; // too many tie combinations to decide: do not judge
        }
    }
    choices.into_iter().any(|c| {
        let v: Vec<Ent> = c.into_iter().filter(|e| (pre_author || am(e)) && (q.include_empty || !e.is_marker())).collect();
        window(v, q) == got
    })
}

fn run_query(store: &mut Store, q: &QSpec) -> Result<Result<Vec<Ent>, String>, String> {
    let w = world();
    let it = store.get_many(w.doc_id(q.d), build_query(q)).map_err(|e| format!("get_many: {e:#}"))?;
    let mut out = Vec::new();
    for e in it {
        let e = e.map_err(|e| format!("item: {e:#}"))?;
        match ent_of(q.d, &e) {
            Some(x) => out.push(x),
            None => return Ok(Err(format!("{:?}", e.entry()))),
        }
    }
    Ok(Ok(out))
}

fn short(v: &[Ent]) -> String {
    v.iter().map(|e| e.short()).collect::<Vec<_>>().join(",")
}

async fn run(plan: &QueryPlan, cx: &mut Cx) -> Res {
    let w = world();
    let mut sut = Sut::new(plan.backend)?;
    for d in 0..crate::world::N_DOCS as u8 {
        ensure_doc(sut.store(), d)?;
    }
    let mut models = [RefDoc::default(), RefDoc::default(), RefDoc::default(), RefDoc::default()];
    for step in &plan.steps {
        match step {
            QStep::Offer { i, path } => {
                let Some(e) = plan.items.get(*i) else { continue };
                let before = models[e.d as usize].0.len();
                offer(sut.store(), e, *path).await?;
                let r = models[e.d as usize].offer(e);
                if r.map(|n| n > 0).unwrap_or(false) {
                    cx.probe("pruned_leaves_stale_index_rows");
                }
                let _ = before;
                cx.ev("offer", e.short());
            }
            QStep::RemoveDoc { d } => {
                let d = *d % crate::world::N_DOCS as u8;
                sut.store().remove_replica(&w.doc_id(d)).map_err(|e| harness(format!("remove: {e:#}")))?;
                ensure_doc(sut.store(), d)?;
                models[d as usize] = RefDoc::default();
                cx.probe("document_removed_and_recreated_between_queries");
                cx.ev("remove-doc", format!("d{d}"));
            }
            QStep::Refused { d, kind } => {
                let d = *d % crate::world::N_DOCS as u8;
                let ns = w.doc_id(d);
                let missing = w.foreign_doc.id();
                let st = sut.store();
                let refused = match kind % 4 {
                    0 => {
                        if st.load_replica_info(&ns).is_ok() {
                            let r = st.remove_replica(&ns).is_err();
                            st.close_replica(ns);
                            r
                        } else {
                            true
                        }
                    }
                    1 => st.set_download_policy(&missing, Default::default()).is_err(),
                    2 => st.register_useful_peer(missing, w.peers[0]).is_err(),
                    _ => st.load_replica_info(&missing).is_err(),
                };
                if !refused {
                    return Err(harness(format!("an operation that must be refused (kind {kind}) succeeded")));
                }
                cx.fault("refused_operation_between_queries");
                cx.ev("refused", format!("d{d} kind {kind}"));
            }
            QStep::Restart => {
                if sut.can_restart() {
                    sut.restart_clean()?;
                    cx.fault("clean_restart");
                    cx.ev("restart", "");
                }
            }
            QStep::DropDerived { by_key, heads } => {
                if sut.backend == Backend::Disk {
                    drop_derived(&mut sut, *by_key, *heads)?;
                    cx.fault("older_version_database");
                    cx.ev("drop-derived", format!("{by_key} {heads}"));
                }
            }
            QStep::Query(q) => {
                let all: Vec<Ent> = models.iter().flat_map(|m| m.0.values().cloned()).collect();
                let got = match run_query(sut.store(), q).map_err(harness)? {
                    Ok(v) => v,
                    Err(alien) => return Err(Violation::new("flat/alien", format!("query returned an entry nobody wrote: {alien}"))),
                };
                cx.ev("query", format!("{q:?} -> {}", got.len()));
                if !q.latest {
                    let want = eval_flat(&all, q);
                    if got != want {
                        let idx = if q.by_key && q.author.is_none() { "by-key-index" } else { "records-table" };
                        let kf = match &q.kf { KeyF::Any => "any", KeyF::Exact(_) => "exact", KeyF::Prefix(_) => "prefix" };
                        let what = if got.len() == want.len() && { let mut a = got.clone(); let mut b = want.clone(); a.sort(); b.sort(); a == b } { "order" } else { "set" };
                        return Err(Violation::new(format!("flat/{idx}/{kf}/{what}"), format!("{q:?}: got [{}] expected [{}]; state [{}]", short(&got), short(&want), short(&all))));
                    }
                } else {
                    let a = latest_ok(&all, q, &got, true);
                    let b = latest_ok(&all, q, &got, false);
                    let ok = if q.author.is_some() { a || b } else { b };
                    if !ok {
                        return Err(Violation::new("latest/mismatch", format!("{q:?}: got [{}] which is not the newest entry per matching key; state [{}]", short(&got), short(&all))));
                    }
                }
            }
            QStep::OtherRead { kind } => {
                let ns = w.doc_id(0);
                let st = sut.store();
                let r: Result<(), String> = match kind % 7 {
                    0 => st.list_namespaces().map(|i| { let _ = i.count(); }).map_err(|e| format!("{e:#}")),
                    1 => st.list_authors().map(|i| { let _ = i.count(); }).map_err(|e| format!("{e:#}")),
                    2 => st.content_hashes().map(|i| { let _ = i.count(); }).map_err(|e| format!("{e:#}")),
                    3 => st.get_latest_for_each_author(ns).map(|i| { let _ = i.count(); }).map_err(|e| format!("{e:#}")),
                    4 => st.flush().map_err(|e| format!("{e:#}")),
                    5 => st.get_sync_peers(&ns).map(|i| { let _ = i.map(|i| i.count()); }).map_err(|e| format!("{e:#}")),
                    _ => st.get_download_policy(&ns).map(|_| ()).map_err(|e| format!("{e:#}")),
                };
                r.map_err(|e| harness(format!("other read {kind}: {e}")))?;
                cx.probe("other_read_between_writes_and_queries");
                cx.ev("other-read", format!("{kind}"));
            }
            QStep::Exact { d, a, k, include_empty } => {
                let got = sut.store().get_exact(w.doc_id(*d), w.author_id(*a), k, *include_empty).map_err(|e| harness(format!("get_exact: {e:#}")))?;
                let want = models[*d as usize].0.get(&(*a, k.clone())).filter(|e| *include_empty || !e.is_marker());
                let got_ent = got.as_ref().and_then(|e| ent_of(*d, e));
                cx.ev("exact", format!("{d} {a} {} {include_empty} -> {}", hex::encode(k), got.is_some()));
                if got.is_some() != want.is_some() || got_ent.as_ref() != want {
                    return Err(Violation::new("exact/mismatch", format!("get_exact(d{d}, a{a}, {}, include_empty={include_empty}) = {:?}, expected {:?}", hex::encode(k), got_ent.map(|e| e.short()), want.map(|e| e.short()))));
                }
            }
        }
    }
    Ok(())
}

/// Emulate a database written by an earlier version: delete derived tables with plain redb.
pub fn drop_derived(sut: &mut Sut, by_key: bool, heads: bool) -> Res {
    use redb::{ReadableDatabase as _, TableDefinition, MultimapTableDefinition};
    let _ = MultimapTableDefinition::<&[u8; 32], (u64, &[u8; 32])>::new("x");
    drop(sut.store.take());
    let img = sut.disk.as_ref().unwrap().image();
    let d = crate::disk::SimDisk::from_image(img);
    {
        let db = redb::Database::builder().create_with_backend(d.clone()).map_err(|e| harness(format!("plain redb open: {e}")))?;
        let tx = db.begin_write().map_err(|e| harness(format!("{e}")))?;
        const BY_KEY: TableDefinition<(&[u8; 32], &[u8], &[u8; 32]), ()> = TableDefinition::new("records-by-key-1");
        const LATEST: TableDefinition<(&[u8; 32], &[u8; 32]), (u64, &[u8])> = TableDefinition::new("latest-by-author-1");
        if by_key {
            tx.delete_table(BY_KEY).map_err(|e| harness(format!("delete by-key: {e}")))?;
        }
        if heads {
            tx.delete_table(LATEST).map_err(|e| harness(format!("delete latest: {e}")))?;
        }
        tx.commit().map_err(|e| harness(format!("{e}")))?;
        let _ = db.begin_read();
    }
    let img = d.image();
    let d2 = crate::disk::SimDisk::from_image(img);
    // the write log of this open (table setup, migrations) is kept: the caller may judge its crash points
    d2.start_recording();
    let st = Store::verif_with_backend(d2.clone()).map_err(|e| Violation::new("open-fails/older-version", format!("opening a database without derived tables failed: {e:#}")))?;
    sut.store = Some(st);
    sut.disk = Some(d2);
    sut.restarts += 1;
    Ok(())
}
