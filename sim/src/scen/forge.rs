//! Scenario `forge` (C03): an adversarial network between an honest writer and the replica under
//! test corrupts entries in flight; each forgery is delivered alone (remote insert) and inside a
//! reconciliation message next to valid entries, with the replica's wall clock placed exactly
//! around the future bound, through the real store actor with subscribers attached.

use iroh_docs::{
    actor::OpenOpts,
    store::{Query, SortBy, SortDirection},
    ContentStatus, Event, SignedEntry, SyncOutcome,
};
use serde::{Deserialize, Serialize};

use crate::{
    model::RefDoc,
    msg::{MMessage, MPart, MRange, MRangeItem, MSigned},
    node::Node,
    rng::Rng,
    runner::{block_on_sim, shrink_vec, Cx, Res, Scenario, Tier, Violation},
    sut::{compare, dump, ensure_doc, harness, heads, Backend, Sut},
    world::{gen_ent, world, Ent, GenCfg},
};

pub const BASE: u64 = 1_700_000_000_000_000;
const SHIFT: u64 = iroh_docs::MAX_TIMESTAMP_FUTURE_SHIFT;
const PEER: [u8; 32] = [0x42; 32];

pub struct Forge;

#[derive(Serialize, Deserialize, Clone, Copy, Debug, PartialEq, Eq)]
pub enum Field {
    Key,
    Namespace,
    Author,
    Hash,
    Len,
    Ts,
    AuthorSig,
    NamespaceSig,
}

#[derive(Serialize, Deserialize, Clone, Debug, PartialEq, Eq)]
pub enum Tamper {
    /// control: untouched honest entry
    None,
    Flip { field: Field, bit: u16 },
    SwapSigs,
    /// signatures copied from another honest entry
    TransplantSig { author: bool, namespace: bool },
    /// completely re-signed for a foreign namespace (valid signatures, wrong document)
    ForeignNamespace,
    /// author signature produced by a different author's key
    ForeignAuthorSig,
    /// namespace signature produced by a different namespace key
    ForeignNamespaceSig,
    /// author / namespace id replaced by bytes that are not a curve point
    NonCurve { author: bool },
    /// correctly signed, len = 0 with a non-empty hash
    LenZeroHash,
    /// correctly signed, empty hash with len > 0
    HashEmptyLen,
    /// correctly signed, timestamp at the future bound (clock decides)
    Future { delta: i64 },
    /// honestly signed, but with a timestamp far beyond the bound (the victim's timestamp is set
    /// to a year ahead, 2^63 µs ahead, u64::MAX - 1 or u64::MAX)
    FarFuture,
    /// identifier shorter than namespace + author
    ShortId { len: u8 },
    /// one signature copied over the other (both slots then hold the same bytes)
    CopySig { namespace_over_author: bool },
    /// a holder of the namespace secret forges new content under another author's id: valid
    /// namespace signature, author slot filled with a copy of it (or with zeros)
    ForgeAuthor { zeros: bool },
    /// a perfectly valid entry of ANOTHER document that exists in the same store
    OtherDocument,
    /// the identifier names another document (0: one that exists in the same store, 1: one that
    /// does not, 2: all-zero id) but both signatures are made, over exactly these bytes, with the
    /// secret of the document under attack and the author's key - what any writer of the
    /// document can produce; the signatures verify, the namespace does not match
    OtherIdOwnSigs { other: u8 },
}

impl Tamper {
    fn kind(&self) -> String {
        match self {
            Tamper::None => "none".into(),
            Tamper::Flip { field, .. } => format!("flip-{field:?}").to_lowercase(),
            Tamper::SwapSigs => "swap-sigs".into(),
            Tamper::TransplantSig { .. } => "transplant-sig".into(),
            Tamper::ForeignNamespace => "foreign-namespace".into(),
            Tamper::ForeignAuthorSig => "foreign-author-sig".into(),
            Tamper::ForeignNamespaceSig => "foreign-namespace-sig".into(),
            Tamper::NonCurve { .. } => "non-curve-id".into(),
            Tamper::LenZeroHash => "len-zero-hash".into(),
            Tamper::HashEmptyLen => "hash-empty-len".into(),
            Tamper::Future { .. } => "future".into(),
            Tamper::FarFuture => "far-future".into(),
            Tamper::ShortId { .. } => "short-id".into(),
            Tamper::CopySig { .. } => "copy-sig".into(),
            Tamper::ForgeAuthor { .. } => "forge-author".into(),
            Tamper::OtherDocument => "other-document".into(),
            Tamper::OtherIdOwnSigs { .. } => "other-id-own-signatures".into(),
        }
    }
    fn valid(&self) -> bool {
        match self {
            Tamper::None => true,
            Tamper::Future { delta } => *delta >= 0,
            _ => false,
        }
    }
}

#[derive(Serialize, Deserialize, Clone, Debug)]
pub struct ForgePlan {
    pub seed: u64,
    pub backend: Backend,
    pub prefill: Vec<Ent>,
    pub victim: Ent,
    pub donor: Ent,
    pub tamper: Tamper,
    pub before: Vec<Ent>,
    pub after: Vec<Ent>,
    pub have_local: bool,
    pub two_parts: bool,
    /// timestamps beyond the bound only: the replica first accepts, through the same ingress
    /// path, an honest entry whose timestamp is exactly at the bound; the bound must not move
    /// with what was accepted
    #[serde(default)]
    pub ladder: bool,
    pub subscribers: u8,
    pub status: u8,
    /// the receiving store holds the secret keys of all authors (it is the forged author's own node)
    #[serde(default)]
    pub own_authors: bool,
    /// the receiving replica holds the document read-only
    #[serde(default)]
    pub read_only: bool,
}

fn non_curve_bytes() -> [u8; 32] {
    use std::sync::OnceLock;
    static B: OnceLock<[u8; 32]> = OnceLock::new();
    *B.get_or_init(|| {
        for i in 0u8..=255 {
            let mut b = [0u8; 32];
            b[0] = i;
            b[1] = 2;
            if iroh::PublicKey::from_bytes(&b).is_err() {
                return b;
            }
        }
        panic!("no non-curve point found");
    })
}

fn flip(bytes: &mut [u8], bit: u16) {
    if bytes.is_empty() {
        return;
    }
    let i = (bit as usize / 8) % bytes.len();
    bytes[i] ^= 1 << (bit % 8);
}

/// Build the forged entry. None = the forgery is not representable / degenerates to the original.
pub fn forge(victim: &Ent, donor: &Ent, t: &Tamper) -> Option<SignedEntry> {
    let w = world();
    let honest = victim.signed();
    let mut m = MSigned::from_real(&honest);
    match t {
        Tamper::None | Tamper::Future { .. } | Tamper::FarFuture => return Some(honest),
        Tamper::Flip { field, bit } => match field {
            Field::Key => {
                let mut id = m.entry.id.to_vec();
                if id.len() == 64 {
                    id.push(1 << (bit % 8));
                } else {
                    flip(&mut id[64..], *bit);
                }
                m.entry.id = id.into();
            }
            Field::Namespace => {
                let mut id = m.entry.id.to_vec();
                flip(&mut id[..32], *bit);
                m.entry.id = id.into();
            }
            Field::Author => {
                let mut id = m.entry.id.to_vec();
                flip(&mut id[32..64], *bit);
                m.entry.id = id.into();
            }
            Field::Hash => flip(&mut m.entry.record.hash, *bit),
            Field::Len => m.entry.record.len ^= 1 << (bit % 16),
            Field::Ts => m.entry.record.timestamp ^= 1 << (bit % 12),
            Field::AuthorSig => {
                if bit % 2 == 0 { flip(&mut m.signature.author.0, *bit) } else { flip(&mut m.signature.author.1, *bit) }
            }
            Field::NamespaceSig => {
                if bit % 2 == 0 { flip(&mut m.signature.namespace.0, *bit) } else { flip(&mut m.signature.namespace.1, *bit) }
            }
        },
        Tamper::SwapSigs => std::mem::swap(&mut m.signature.author, &mut m.signature.namespace),
        Tamper::TransplantSig { author, namespace } => {
            let d = MSigned::from_real(&donor.signed());
            if d.entry == m.entry {
                return None;
            }
            if *author || !*namespace {
                m.signature.author = d.signature.author;
            }
            if *namespace {
                m.signature.namespace = d.signature.namespace;
            }
        }
        Tamper::OtherDocument => {
            let mut e = victim.clone();
            e.d = 1;
            return Some(e.signed());
        }
        Tamper::OtherIdOwnSigs { other } => {
            let ns2 = match other % 3 {
                0 => w.doc_id(1),
                1 => w.foreign_doc.id(),
                _ => iroh_docs::NamespaceId::from(&[0u8; 32]),
            };
            let entry = iroh_docs::sync::Entry::new(iroh_docs::sync::RecordIdentifier::new(ns2, w.author_id(victim.a), &victim.k), victim.record());
            return Some(SignedEntry::from_entry(entry, &w.docs[victim.d as usize], &w.authors[victim.a as usize]));
        }
        Tamper::ForeignNamespace => {
            return Some(SignedEntry::from_parts(&w.foreign_doc, &w.authors[victim.a as usize], &victim.k, victim.record()));
        }
        Tamper::ForeignAuthorSig => {
            let f = MSigned::from_real(&SignedEntry::from_entry(honest.entry().clone(), &w.docs[victim.d as usize], &w.foreign_author));
            m.signature.author = f.signature.author;
        }
        Tamper::ForeignNamespaceSig => {
            let f = MSigned::from_real(&SignedEntry::from_entry(honest.entry().clone(), &w.foreign_doc, &w.authors[victim.a as usize]));
            m.signature.namespace = f.signature.namespace;
        }
        Tamper::NonCurve { author } => {
            let mut id = m.entry.id.to_vec();
            let nc = non_curve_bytes();
            if *author { id[32..64].copy_from_slice(&nc) } else { id[..32].copy_from_slice(&nc) }
            m.entry.id = id.into();
        }
        Tamper::LenZeroHash => {
            let rec = iroh_docs::Record::new(iroh_blobs::Hash::new(b"not-empty"), 0, victim.ts);
            return Some(SignedEntry::from_parts(&w.docs[victim.d as usize], &w.authors[victim.a as usize], &victim.k, rec));
        }
        Tamper::HashEmptyLen => {
            let rec = iroh_docs::Record::new(iroh_blobs::Hash::EMPTY, 7, victim.ts);
            return Some(SignedEntry::from_parts(&w.docs[victim.d as usize], &w.authors[victim.a as usize], &victim.k, rec));
        }
        Tamper::ShortId { len } => {
            let id = m.entry.id.to_vec();
            m.entry.id = id[..(*len as usize).min(63)].to_vec().into();
        }
        Tamper::CopySig { namespace_over_author } => {
            if *namespace_over_author {
                m.signature.author = m.signature.namespace;
            } else {
                m.signature.namespace = m.signature.author;
            }
        }
        Tamper::ForgeAuthor { zeros } => {
            // content the victim author never signed: same id, different record
            let rec = iroh_docs::Record::new(iroh_blobs::Hash::new(b"forged-content"), 14, victim.ts);
            let by_foreign = SignedEntry::from_parts(&w.docs[victim.d as usize], &w.foreign_author, &victim.k, rec);
            let mut f = MSigned::from_real(&by_foreign);
            // put the victim's author id back: the namespace signature must cover it
            let id = iroh_docs::sync::RecordIdentifier::new(w.doc_id(victim.d), w.author_id(victim.a), &victim.k);
            let entry = iroh_docs::Entry::new(id, iroh_docs::Record::new(iroh_blobs::Hash::new(b"forged-content"), 14, victim.ts));
            let ns_signed = MSigned::from_real(&SignedEntry::from_entry(entry, &w.docs[victim.d as usize], &w.foreign_author));
            f.entry = ns_signed.entry;
            f.signature.namespace = ns_signed.signature.namespace;
            f.signature.author = if *zeros { ([0u8; 32], [0u8; 32]) } else { ns_signed.signature.namespace };
            m = f;
        }
    }
    let forged = m.to_real()?;
    if forged == honest {
        return None;
    }
    Some(forged)
}

impl Scenario for Forge {
    type Plan = ForgePlan;

    fn name(&self) -> String {
        "forge".into()
    }

    fn gen(&self, rng: &mut Rng, _tier: Tier) -> ForgePlan {
        let g = GenCfg { docs: 1, authors: rng.range(1, 3) as u8, max_key_len: 3, ts_values: 8, marker_pct: 20, contents: 3 };
        let ent = |rng: &mut Rng| {
            let mut e = gen_ent(rng, &g);
            e.ts += BASE;
            e
        };
        let prefill = (0..rng.urange(0, 4)).map(|_| ent(rng)).collect();
        let mut victim = ent(rng);
        let donor = ent(rng);
        let fields = [Field::Key, Field::Namespace, Field::Author, Field::Hash, Field::Len, Field::Ts, Field::AuthorSig, Field::NamespaceSig];
        let tamper = match rng.below(20) {
            0 => Tamper::None,
            1..=6 => Tamper::Flip { field: *rng.pick(&fields), bit: rng.below(512) as u16 },
            7 => Tamper::SwapSigs,
            8 | 9 => Tamper::TransplantSig { author: rng.chance(1, 2), namespace: rng.chance(1, 2) },
            10 => Tamper::ForeignNamespace,
            11 => Tamper::ForeignAuthorSig,
            12 => Tamper::ForeignNamespaceSig,
            13 => Tamper::NonCurve { author: rng.chance(1, 2) },
            14 => Tamper::LenZeroHash,
            15 => Tamper::HashEmptyLen,
            16 | 17 => Tamper::Future { delta: *rng.pick(&[-1i64, 0, 1, -1000, 1000, -1, 0]) },
            18 if rng.chance(1, 3) => Tamper::OtherDocument,
            18 if rng.chance(1, 2) => Tamper::OtherIdOwnSigs { other: rng.below(3) as u8 },
            18 => if rng.chance(1, 2) { Tamper::CopySig { namespace_over_author: rng.chance(1, 2) } } else { Tamper::ForgeAuthor { zeros: rng.chance(1, 3) } },
            _ => if rng.chance(1, 3) { Tamper::ShortId { len: rng.below(64) as u8 } } else if rng.chance(1, 3) { Tamper::FarFuture } else { Tamper::Future { delta: *rng.pick(&[-1i64, 0, 1]) } },
        };
        if matches!(tamper, Tamper::FarFuture) {
            victim.ts = *rng.pick(&[BASE + 366 * 86_400 * 1_000_000, BASE + (1u64 << 63), BASE + (1u64 << 63) + 7, u64::MAX - 1, u64::MAX, u64::MAX / 2 + 1]);
        }
        if matches!(tamper, Tamper::Future { .. }) {
            victim.ts = BASE + 5000;
        }
        if matches!(tamper, Tamper::LenZeroHash | Tamper::HashEmptyLen) && victim.c == 0 {
            victim.c = 1;
        }
        ForgePlan {
            seed: rng.next_u64(),
            backend: if rng.chance(2, 3) { Backend::Mem } else { Backend::Disk },
            prefill,
            victim,
            donor,
            tamper,
            before: (0..rng.urange(0, 3)).map(|_| ent(rng)).collect(),
            after: (0..rng.urange(0, 3)).map(|_| ent(rng)).collect(),
            have_local: rng.chance(1, 2),
            two_parts: rng.chance(1, 2),
            ladder: rng.chance(1, 2),
            subscribers: rng.below(3) as u8,
            status: rng.below(3) as u8,
            own_authors: rng.chance(1, 3),
            read_only: rng.chance(1, 4),
        }
    }

    fn exec(&self, plan: &ForgePlan, cx: &mut Cx) -> Res {
        block_on_sim(plan.seed, run(plan, cx))
    }

    fn shrink(&self, plan: &ForgePlan) -> Vec<ForgePlan> {
        let mut out = Vec::new();
        for c in shrink_vec(&plan.prefill) {
            let mut p = plan.clone();
            p.prefill = c;
            out.push(p);
        }
        for c in shrink_vec(&plan.before) {
            let mut p = plan.clone();
            p.before = c;
            out.push(p);
        }
        for c in shrink_vec(&plan.after) {
            let mut p = plan.clone();
            p.after = c;
            out.push(p);
        }
        if plan.subscribers > 0 {
            let mut p = plan.clone();
            p.subscribers = 0;
            out.push(p);
        }
        if plan.backend != Backend::Mem {
            let mut p = plan.clone();
            p.backend = Backend::Mem;
            out.push(p);
        }
        if plan.two_parts {
            let mut p = plan.clone();
            p.two_parts = false;
            out.push(p);
        }
        if !plan.victim.k.is_empty() {
            let mut p = plan.clone();
            p.victim.k.pop();
            out.push(p);
        }
        out
    }

    fn components(&self) -> (Vec<&'static str>, Vec<&'static str>) {
        (
            vec!["actor::SyncHandle (insert_remote, sync_process_message, subscribe)", "sync::validate_entry / validate_empty / EntrySignature::verify", "ranger::process_message (validate callback)", "store::fs", "ed25519 verification"],
            vec!["peer (forged entries and messages crafted through the public postcard encoding)", "wall clock (thread-local hook, placed around the future bound)", "store actor thread (run as a local task)"],
        )
    }

    fn rule(&self) -> String {
        "A run takes an honest signed entry and applies one in-flight corruption (bit flip in any field or signature, swapped / transplanted / foreign signatures, foreign namespace, non-curve ids, empty/len mismatch, short identifier, timestamp at bound-1/bound/bound+1 µs) and delivers it alone and at a random position of a reconciliation message with valid companions, on a replica with 0-2 subscribers. Non-trivial: a forged (invalid) entry was delivered.".into()
    }
}

fn status_of(s: u8) -> ContentStatus {
    match s {
        0 => ContentStatus::Missing,
        1 => ContentStatus::Incomplete,
        _ => ContentStatus::Complete,
    }
}

async fn run(plan: &ForgePlan, cx: &mut Cx) -> Res {
    let w = world();
    let ns = w.doc_id(0);
    MSigned::selfcheck(&plan.victim.signed()).map_err(harness)?;
    let Some(forged) = forge(&plan.victim, &plan.donor, &plan.tamper) else {
        cx.ev("degenerate", plan.tamper.kind());
        return Ok(());
    };
    let valid = plan.tamper.valid();
    if !valid {
        cx.fault(match &plan.tamper {
            Tamper::Flip { .. } => "corrupt_bit_flip",
            Tamper::SwapSigs | Tamper::TransplantSig { .. } | Tamper::ForeignAuthorSig | Tamper::ForeignNamespaceSig | Tamper::CopySig { .. } | Tamper::ForgeAuthor { .. } => "corrupt_signature",
            Tamper::ForeignNamespace | Tamper::NonCurve { .. } | Tamper::ShortId { .. } | Tamper::OtherDocument | Tamper::OtherIdOwnSigs { .. } => "corrupt_identifier",
            Tamper::LenZeroHash | Tamper::HashEmptyLen => "corrupt_empty_mismatch",
            Tamper::Future { .. } | Tamper::FarFuture => "clock_skew_future_bound",
            Tamper::None => "none",
        });
    } else if matches!(plan.tamper, Tamper::Future { .. }) {
        cx.fault("clock_skew_future_bound");
    }
    let now = match plan.tamper {
        Tamper::Future { delta } => (plan.victim.ts as i64 - SHIFT as i64 + delta) as u64,
        _ => BASE + 100,
    };
    let kind = plan.tamper.kind();
    let status = status_of(plan.status);
    cx.ev("forged", format!("{kind} {:016x} prefill={} before={} after={} subs={} parts2={} local={}", crate::rng::fnv(&postcard::to_stdvec(&forged).unwrap_or_default()), plan.prefill.len(), plan.before.len(), plan.after.len(), plan.subscribers, plan.two_parts, plan.have_local));

    // two identical nodes: path (a) direct, path (b) in a message
    for path in ["direct", "in-message"] {
        let mut sut = Sut::new(plan.backend)?;
        if plan.read_only {
            sut.store().import_namespace(iroh_docs::Capability::Read(ns)).map_err(|e| harness(format!("{e:#}")))?;
        } else {
            ensure_doc(sut.store(), 0)?;
        }
        if plan.own_authors {
            for a in w.authors.iter() {
                sut.store().import_author(a.clone()).map_err(|e| harness(format!("{e:#}")))?;
            }
        }
        // a second document lives in the same store; nothing is ever written to it legitimately
        ensure_doc(sut.store(), 1)?;
        let node = Node::start(sut.store.take().unwrap());
        node.set_clock(now);
        let mut rxs = Vec::new();
        let mut opts = OpenOpts::default().sync();
        let mut first_rx = None;
        if plan.subscribers > 0 {
            let (tx, rx) = async_channel::bounded(64);
            opts = opts.subscribe(tx);
            first_rx = Some(rx);
        }
        node.handle.open(ns, opts).await.map_err(|e| harness(format!("open: {e:#}")))?;
        if let Some(rx) = first_rx {
            rxs.push(rx);
        }
        for _ in 1..plan.subscribers {
            let (tx, rx) = async_channel::bounded(64);
            node.handle.subscribe(ns, tx).await.map_err(|e| harness(format!("subscribe: {e:#}")))?;
            rxs.push(rx);
        }
        let mut model = RefDoc::default();
        let mut prefill = plan.prefill.clone();
        if let (Tamper::Future { delta }, true) = (&plan.tamper, plan.ladder) {
            if *delta < 0 {
                // a stepping stone exactly at the bound, from another author at a key of its own
                prefill.push(Ent { d: 0, a: (plan.victim.a + 1) % 2, k: vec![0xFE, 0x01, 0x01], ts: now + SHIFT, c: 1 });
                cx.probe("entry_at_the_bound_accepted_before_one_beyond_it");
            }
        }
        for e in &prefill {
            let mut e = e.clone();
            e.d = 0;
            let r = node.handle.insert_remote(ns, e.signed(), PEER, ContentStatus::Missing).await;
            if e.ts == now + SHIFT && e.k == [0xFE, 0x01, 0x01] && r.is_err() && !plan.read_only {
                return Err(Violation::new("bound/rejected-at-bound", format!("[{path}] an honest entry exactly at the future bound was refused: {r:?}")));
            }
            model.offer(&e);
        }
        for rx in &rxs {
            while rx.try_recv().is_ok() {}
        }
        // expected events / state
        let mut expected_events: Vec<SignedEntry> = Vec::new();
        let mut victim0 = plan.victim.clone();
        victim0.d = 0;
        let deliver: Vec<(Option<Ent>, SignedEntry)> = if path == "direct" {
            vec![(valid.then(|| victim0.clone()), forged.clone())]
        } else {
            let mut v = Vec::new();
            for e in &plan.before {
                let mut e = e.clone();
                e.d = 0;
                v.push((Some(e.clone()), e.signed()));
            }
            v.push((valid.then(|| victim0.clone()), forged.clone()));
            for e in &plan.after {
                let mut e = e.clone();
                e.d = 0;
                v.push((Some(e.clone()), e.signed()));
            }
            v
        };
        for (ent, signed) in &deliver {
            if let Some(ent) = ent {
                if model.offer(ent).is_some() {
                    expected_events.push(signed.clone());
                }
            }
        }
        let mut reply_values: Vec<SignedEntry> = Vec::new();
        let verdict_ok: Option<bool>;
        if path == "direct" {
            let r = node.handle.insert_remote(ns, forged.clone(), PEER, status).await;
            cx.ev("deliver-direct", format!("{kind} -> {}", r.is_ok()));
            verdict_ok = Some(r.is_ok());
        } else {
            let split = if plan.two_parts { plan.before.len() + 1 } else { deliver.len() };
            let idv = forged_id_or_default(&forged);
            let mk = |items: &[(Option<Ent>, SignedEntry)]| MPart::RangeItem(MRangeItem {
                range: MRange { x: idv.clone(), y: idv.clone() },
                values: items.iter().map(|(_, s)| (s.clone(), status)).collect(),
                have_local: plan.have_local,
            });
            let mut parts = vec![mk(&deliver[..split.min(deliver.len())])];
            if split < deliver.len() {
                parts.push(mk(&deliver[split..]));
            }
            let msg = MMessage { parts }.to_real();
            let r = node.handle.sync_process_message(ns, msg, PEER, SyncOutcome::default()).await;
            cx.ev("deliver-message", format!("{kind} -> {}", r.is_ok()));
            match r {
                Ok((reply, _out)) => {
                    if let Some(reply) = reply {
                        reply_values = MMessage::from_real(&reply).values().into_iter().cloned().collect();
                    }
                }
                Err(e) => {
                    return Err(Violation::new("rest-of-message/error", format!("[{kind}] processing a message that carries one bad entry failed as a whole: {e:#}")));
                }
            }
            verdict_ok = None;
        }
        // events
        for (i, rx) in rxs.iter().enumerate() {
            let mut got = Vec::new();
            while let Ok(ev) = rx.try_recv() {
                match ev {
                    Event::RemoteInsert { entry, from, remote_content_status, should_download, .. } => {
                        if from != PEER || remote_content_status != status || !should_download {
                            return Err(Violation::new("event-payload/remote", format!("[{kind}/{path}] subscriber {i}: event for {:?} carries from={:?} status={remote_content_status:?} download={should_download}", entry.entry().id(), &from[..2])));
                        }
                        got.push(entry);
                    }
                    Event::LocalInsert { entry, .. } => {
                        return Err(Violation::new("event-for-rejected/local", format!("[{kind}/{path}] subscriber {i} got a LocalInsert for {:?}", entry.entry().id())));
                    }
                }
            }
            if !valid && got.iter().any(|e| e == &forged) {
                return Err(Violation::new(format!("event-for-rejected/{kind}"), format!("[{path}] subscriber {i} was told about the forged entry {:?}", forged.entry())));
            }
            if got != expected_events {
                return Err(Violation::new("event-sequence/mismatch", format!("[{kind}/{path}] subscriber {i} saw {} insert events, {} entries were applied", got.len(), expected_events.len())));
            }
        }
        // state
        let mut store = node.stop().await?;
        let d = dump(&mut store, 0).map_err(harness)?;
        if !valid && d.raw.iter().any(|e| e == &forged) {
            return Err(Violation::new(format!("accepted-forged/{kind}"), format!("[{path}] the forged entry was stored: {:?} (clock now={now}, bound={})", forged.entry(), now + SHIFT)));
        }
        if !valid && verdict_ok == Some(true) {
            return Err(Violation::new(format!("accepted-forged/{kind}"), format!("[{path}] insert of the forged entry reported success: {:?}", forged.entry())));
        }
        if valid && matches!(plan.tamper, Tamper::Future { .. }) && !d.raw.iter().any(|e| e == &forged) && model.0.values().any(|e| e == &victim0) {
            return Err(Violation::new("bound/rejected-at-bound", format!("[{path}] an entry exactly within the future bound (ts={} now={now}) was not stored", plan.victim.ts)));
        }
        compare(if valid { "state" } else { "reject-side-effect" }, &format!("[{kind}/{path}] replica after delivery"), &d, &model)?;
        let other = dump(&mut store, 1).map_err(harness)?;
        if !other.raw.is_empty() {
            return Err(Violation::new(format!("accepted-forged/{kind}"), format!("[{path}] an entry delivered to one document ended up in another document of the same store: {:?}", other.raw[0].entry())));
        }
        // indexes agree with the entries held
        let by_key: Vec<SignedEntry> = store
            .get_many(ns, Query::all().include_empty().sort_by(SortBy::KeyAuthor, SortDirection::Asc))
            .map_err(|e| harness(format!("{e:#}")))?
            .collect::<Result<_, _>>()
            .map_err(|e| harness(format!("{e:#}")))?;
        let mut a: Vec<_> = by_key.iter().map(|e| e.id().as_ref().to_vec()).collect();
        let mut b: Vec<_> = d.raw.iter().map(|e| e.id().as_ref().to_vec()).collect();
        a.sort();
        b.sort();
        if a != b {
            return Err(Violation::new("reject-side-effect/index", format!("[{kind}/{path}] key-ordered query returns {} entries, author-ordered {}", a.len(), b.len())));
        }
        let h = heads(&mut store, 0).map_err(harness)?;
        let want = d.doc.heads();
        if h.iter().map(|(a, (t, _))| (*a, *t)).collect::<std::collections::BTreeMap<_, _>>() != want {
            return Err(Violation::new("reject-side-effect/heads", format!("[{kind}/{path}] heads {:?} but held entries give {:?}", h, want)));
        }
        // (a reply may legitimately carry entries that the incoming values pruned afterwards,
        // so it is only checked for the forged entry itself)
        if !valid && reply_values.iter().any(|v| v == &forged) {
            return Err(Violation::new(format!("accepted-forged/{kind}"), format!("[{path}] the reply carries the forged entry {:?}", forged.entry())));
        }
        drop(store);
    }
    Ok(())
}

fn forged_id_or_default(e: &SignedEntry) -> iroh_docs::sync::RecordIdentifier {
    // a short identifier cannot be used as a range bound safely; use the default id then
    if e.id().as_ref().len() >= 64 {
        e.id().clone()
    } else {
        Default::default()
    }
}
