//! Scenario `docs`: histories over a store with several documents — capabilities, writes,
//! policies, useful peers, open/close, remove/re-create, clean and (flushed) crash restarts,
//! older-version reopen — checked against the RefStore model.
//! Modes select the oracle family: C07 (capabilities), C15 (policies), C16 (removal),
//! C17 (useful peers), C18 (derived-table rebuild).

use std::collections::{BTreeMap, BTreeSet};

use iroh_docs::{
    store::{DownloadPolicy, FilterKind, Query, SortBy, SortDirection, Store},
    Capability, CapabilityKind, NamespaceId,
};
use serde::{Deserialize, Serialize};

use crate::{
    disk::Loss,
    model::RefDoc,
    ops::{offer, OfferResult, Path},
    rng::Rng,
    runner::{block_on_sim, shrink_vec, Cx, Res, Scenario, Tier, Violation},
    scen::query::drop_derived,
    sut::{harness, Backend, Sut},
    world::{gen_ent, gen_key, hexbytes, world, Ent, GenCfg},
};

#[derive(Clone, Copy, PartialEq, Eq, Debug)]
pub enum Mode {
    Cap,
    Policy,
    Remove,
    Peers,
    /// like Peers, but the wall clock stalls and jumps backwards between registrations
    PeersClockFault,
    Migrate,
}

pub struct Docs {
    pub mode: Mode,
}

#[derive(Serialize, Deserialize, Clone, Debug, PartialEq, Eq)]
pub struct FilterSpec {
    pub exact: bool,
    #[serde(with = "hexbytes")]
    pub bytes: Vec<u8>,
}

#[derive(Serialize, Deserialize, Clone, Debug, PartialEq, Eq)]
pub struct PolicySpec {
    pub nothing_except: bool,
    pub filters: Vec<FilterSpec>,
}

impl PolicySpec {
    pub fn real(&self) -> DownloadPolicy {
        let f: Vec<FilterKind> = self
            .filters
            .iter()
            .map(|f| if f.exact { FilterKind::Exact(f.bytes.clone().into()) } else { FilterKind::Prefix(f.bytes.clone().into()) })
            .collect();
        if self.nothing_except {
            DownloadPolicy::NothingExcept(f)
        } else {
            DownloadPolicy::EverythingExcept(f)
        }
    }
    /// The statement's definition.
    pub fn selects(&self, key: &[u8]) -> bool {
        let any = self.filters.iter().any(|f| if f.exact { f.bytes == key } else { key.starts_with(&f.bytes) });
        if self.nothing_except {
            any
        } else {
            !any
        }
    }
}

pub fn gen_policy(rng: &mut Rng) -> PolicySpec {
    let n = rng.urange(0, 4);
    PolicySpec {
        nothing_except: rng.chance(1, 2),
        filters: (0..n).map(|_| FilterSpec { exact: rng.chance(1, 2), bytes: gen_key(rng, 3) }).collect(),
    }
}

#[derive(Serialize, Deserialize, Clone, Debug)]
pub enum DStep {
    ImportCap { d: u8, write: bool },
    Open { d: u8 },
    Close { d: u8 },
    Offer { e: Ent, path: Path },
    Remove { d: u8 },
    SetPolicy { d: u8, p: PolicySpec },
    Register { d: u8, peer: u8, dt: i64 },
    Restart,
    /// flush, then crash with the given loss model (nothing acknowledged may be lost)
    FlushCrash { l2: bool },
    DropDerived { by_key: bool, heads: bool },
    Reopen { times: u8 },
    Observe,
    /// C16, last step of a run: remove document `d` while the open transaction looks older than
    /// the commit delay at its `at`-th internal store access, then the process dies without a
    /// flush. Whatever the reopened store shows, a document it does not list must have left
    /// nothing behind.
    RemoveCrash { d: u8, at: u32, l2: bool },
    /// last step of a run: the process dies without a flush (optionally with an age-commit placed
    /// inside one more settings operation just before). The reopened store may have lost recent
    /// work, but what it shows must be made of things that happened: a peer list of at most five
    /// distinct peers that were registered for that document, a policy that was set for it (or
    /// the default), a capability that was imported for it, nothing for documents it does not list.
    CrashEnd { l2: bool },
    /// C18, file-backed stores: the database file is rewritten the way iroh-docs 0.94..=0.98
    /// (redb 2.x) wrote it - the tuple-keyed tables carry the old type tag - with or without the
    /// two derived tables, and opened through `Store::persistent` (format conversion, then the
    /// populate-if-empty migrations).
    OldFormat { keep_heads: bool, keep_by_key: bool },
}

/// A read-only document with a crafted id next to a real one in byte order (document index
/// `N_DOCS + position`): it can hold settings (capability, policy, peers) but never entries.
#[derive(Serialize, Deserialize, Clone, Debug, PartialEq, Eq)]
pub struct Ghost {
    pub of: u8,
    /// 0 predecessor, 1 successor, 2 id with the last byte set to FF, 3 successor of that,
    /// 4 all FF, 5 all zero, 6 id + 256, 7 id - 256
    pub kind: u8,
}

fn add_be(mut id: [u8; 32], from: usize, up: bool) -> [u8; 32] {
    let mut i = from as isize;
    while i >= 0 {
        let b = &mut id[i as usize];
        if up {
            *b = b.wrapping_add(1);
            if *b != 0 {
                break;
            }
        } else {
            *b = b.wrapping_sub(1);
            if *b != 0xFF {
                break;
            }
        }
        i -= 1;
    }
    id
}

impl Ghost {
    pub fn id(&self) -> NamespaceId {
        let base = world().doc_id(self.of).to_bytes();
        let id = match self.kind {
            0 => add_be(base, 31, false),
            1 => add_be(base, 31, true),
            2 => {
                let mut b = base;
                b[31] = 0xFF;
                b
            }
            3 => {
                let mut b = base;
                b[31] = 0xFF;
                add_be(b, 31, true)
            }
            4 => [0xFF; 32],
            5 => [0u8; 32],
            6 => add_be(base, 30, true),
            _ => add_be(base, 30, false),
        };
        NamespaceId::from(id)
    }
}

#[derive(Serialize, Deserialize, Clone, Debug)]
pub struct DocsPlan {
    pub seed: u64,
    pub backend: Backend,
    #[serde(default)]
    pub ghosts: Vec<Ghost>,
    pub steps: Vec<DStep>,
}

impl DocsPlan {
    fn ns(&self, d: u8) -> NamespaceId {
        if (d as usize) < crate::world::N_DOCS {
            world().doc_id(d)
        } else {
            self.ghosts[(d as usize - crate::world::N_DOCS) % self.ghosts.len().max(1)].id()
        }
    }
    fn is_ghost(&self, d: u8) -> bool {
        (d as usize) >= crate::world::N_DOCS
    }
}

#[derive(Clone, Default, Debug)]
struct DocModel {
    /// None = document does not exist; Some(write?)
    cap: Option<bool>,
    doc: RefDoc,
    policy: Option<PolicySpec>,
    /// most recent first
    peers: Vec<u8>,
    open: bool,
}

#[derive(Clone, Debug, PartialEq, Eq)]
struct Obs {
    entries: Vec<Vec<u8>>,
    by_key: Vec<Vec<u8>>,
    heads: Vec<([u8; 32], u64)>,
    /// the key reported with each head (compared only between two observations of the same
    /// store, never with the model: with equal timestamps it depends on the order of arrival)
    head_keys: Vec<Vec<u8>>,
    peers: Option<Vec<[u8; 32]>>,
    policy: Vec<u8>,
    cap: Option<u8>,
}

fn observe(store: &mut Store, ns: NamespaceId) -> Result<Obs, String> {
    let ser = |e: &iroh_docs::SignedEntry| postcard::to_stdvec(e).unwrap();
    let entries: Vec<Vec<u8>> = store
        .get_many(ns, Query::all().include_empty())
        .map_err(|e| format!("{e:#}"))?
        .map(|e| e.map(|e| ser(&e)).map_err(|e| format!("{e:#}")))
        .collect::<Result<_, _>>()?;
    let by_key: Vec<Vec<u8>> = store
        .get_many(ns, Query::all().include_empty().sort_by(SortBy::KeyAuthor, SortDirection::Asc))
        .map_err(|e| format!("{e:#}"))?
        .map(|e| e.map(|e| ser(&e)).map_err(|e| format!("{e:#}")))
        .collect::<Result<_, _>>()?;
    let heads_full: Vec<([u8; 32], u64, Vec<u8>)> = store
        .get_latest_for_each_author(ns)
        .map_err(|e| format!("{e:#}"))?
        .map(|r| r.map(|(a, ts, k)| (a.to_bytes(), ts, k.to_vec())).map_err(|e| format!("{e:#}")))
        .collect::<Result<_, _>>()?;
    let heads: Vec<([u8; 32], u64)> = heads_full.iter().map(|(a, ts, _)| (*a, *ts)).collect();
    let head_keys: Vec<Vec<u8>> = heads_full.into_iter().map(|(_, _, k)| k).collect();
    let peers = store.get_sync_peers(&ns).map_err(|e| format!("{e:#}"))?.map(|i| i.collect::<Vec<_>>());
    let policy = postcard::to_stdvec(&store.get_download_policy(&ns).map_err(|e| format!("{e:#}"))?).unwrap();
    let mut cap = None;
    for r in store.list_namespaces().map_err(|e| format!("{e:#}"))? {
        let (id, kind) = r.map_err(|e| format!("{e:#}"))?;
        if id == ns {
            cap = Some(match kind {
                CapabilityKind::Write => 1,
                CapabilityKind::Read => 2,
            });
        }
    }
    Ok(Obs { entries, by_key, heads, head_keys, peers, policy, cap })
}

impl Scenario for Docs {
    type Plan = DocsPlan;

    fn name(&self) -> String {
        match self.mode {
            Mode::Cap => "docs-cap",
            Mode::Policy => "docs-policy",
            Mode::Remove => "docs-remove",
            Mode::Peers => "docs-peers",
            Mode::PeersClockFault => "docs-peers-clockfault",
            Mode::Migrate => "docs-migrate",
        }
        .into()
    }

    fn gen(&self, rng: &mut Rng, tier: Tier) -> DocsPlan {
        let ndocs = rng.range(2, 4) as u8;
        let g = GenCfg { docs: ndocs, authors: if matches!(self.mode, Mode::Migrate | Mode::Remove) { crate::world::gen_author_count(rng, 3) } else { rng.range(1, 3) as u8 }, max_key_len: 3, ts_values: 6, marker_pct: 20, contents: 3 };
        let backend = match rng.below(10) {
            0..=1 => Backend::Mem,
            2..=6 => Backend::Disk,
            7..=8 if self.mode != Mode::Migrate => Backend::Disk,
            _ => Backend::File,
        };
        let n = rng.urange(5, tier.pick(30, 40));
        let mut steps = Vec::new();
        // crafted read-only neighbours of the real documents (ids adjacent in byte order)
        let mut ghosts: Vec<Ghost> = Vec::new();
        if rng.chance(if self.mode == Mode::Remove { 3 } else { 1 }, 4) {
            for _ in 0..rng.urange(1, 3) {
                let g = Ghost { of: rng.below(ndocs as u64) as u8, kind: rng.below(8) as u8 };
                let taken = (0..ndocs).map(|d| world().doc_id(d)).chain(ghosts.iter().map(|g| g.id())).any(|id| id == g.id());
                if !taken {
                    ghosts.push(g);
                }
            }
        }
        let nall = ndocs + ghosts.len() as u8;
        let pick_doc = |rng: &mut Rng| -> u8 {
            let i = rng.below(nall as u64) as u8;
            if i < ndocs { i } else { crate::world::N_DOCS as u8 + (i - ndocs) }
        };
        for g in 0..ghosts.len() as u8 {
            if rng.chance(4, 5) {
                steps.push(DStep::ImportCap { d: crate::world::N_DOCS as u8 + g, write: false });
            }
        }
        // most runs start with documents existing
        for d in 0..ndocs {
            if rng.chance(4, 5) {
                steps.push(DStep::ImportCap { d, write: self.mode != Mode::Cap || rng.chance(1, 2) });
            }
        }
        // weights: import open close offer remove policy register restart flushcrash dropderived reopen observe
        let weights: [u32; 12] = match self.mode {
            Mode::Cap => [20, 8, 8, 30, 3, 2, 2, 8, 5, 0, 2, 12],
            Mode::Policy => [5, 3, 3, 15, 6, 30, 3, 10, 6, 0, 3, 16],
            Mode::Remove => [8, 8, 8, 30, 14, 6, 8, 5, 3, 0, 2, 12],
            Mode::Peers | Mode::PeersClockFault => [4, 2, 2, 5, 5, 2, 50, 8, 5, 0, 3, 14],
            Mode::Migrate => [4, 2, 2, 45, 3, 2, 2, 5, 3, 14, 6, 12],
        };
        for _ in 0..n {
            let d = rng.below(ndocs as u64) as u8;
            // settings operations may address a crafted neighbour; writes never do
            let da = pick_doc(rng);
            if backend == Backend::File && self.mode != Mode::Migrate && self.mode != Mode::Remove && rng.chance(1, 12) {
                steps.push(DStep::OldFormat { keep_heads: rng.chance(1, 2), keep_by_key: rng.chance(1, 2) });
            }
            let s = match rng.weighted(&weights) {
                0 => DStep::ImportCap { d: da, write: rng.chance(1, 2) },
                1 => DStep::Open { d: da },
                2 => DStep::Close { d: da },
                3 => {
                    let mut e = gen_ent(rng, &g);
                    e.d = d;
                    let path = match (self.mode, rng.below(10)) {
                        (Mode::Cap, 0..=5) => Path::Local,
                        (_, 0..=1) => Path::Local,
                        (_, 2..=7) => Path::Remote,
                        _ => Path::InMessage,
                    };
                    DStep::Offer { e, path }
                }
                4 => DStep::Remove { d: da },
                5 => DStep::SetPolicy { d: da, p: gen_policy(rng) },
                6 => {
                    let dt = if self.mode == Mode::PeersClockFault {
                        *rng.pick(&[1i64, 1, 7, 0, 0, -3, -50])
                    } else {
                        rng.range(1, 20) as i64
                    };
                    { let np = if rng.chance(1, 2) { 9 } else { 6 }; DStep::Register { d: da, peer: rng.below(np) as u8, dt } }
                }
                7 => DStep::Restart,
                8 => DStep::FlushCrash { l2: rng.chance(1, 2) },
                9 if backend == Backend::File => DStep::OldFormat { keep_heads: rng.chance(1, 3), keep_by_key: rng.chance(1, 3) },
                9 => DStep::DropDerived { by_key: rng.chance(2, 3), heads: rng.chance(2, 3) },
                10 => DStep::Reopen { times: rng.range(1, 4) as u8 },
                _ => DStep::Observe,
            };
            steps.push(s);
        }
        steps.push(DStep::Observe);
        if self.mode == Mode::Remove && backend == Backend::Disk && rng.chance(1, 4) {
            steps.push(DStep::RemoveCrash { d: pick_doc(rng), at: rng.below(5) as u32, l2: rng.chance(1, 2) });
        }
        if matches!(self.mode, Mode::Peers | Mode::PeersClockFault | Mode::Policy | Mode::Cap) && backend == Backend::Disk && rng.chance(1, 5) {
            steps.push(DStep::CrashEnd { l2: rng.chance(1, 2) });
        }
        DocsPlan { seed: rng.next_u64(), backend, ghosts, steps }
    }

    fn exec(&self, plan: &DocsPlan, cx: &mut Cx) -> Res {
        block_on_sim(plan.seed, self.run(plan, cx))
    }

    fn shrink(&self, plan: &DocsPlan) -> Vec<DocsPlan> {
        let mut out = Vec::new();
        for c in shrink_vec(&plan.steps) {
            let mut p = plan.clone();
            p.steps = c;
            out.push(p);
        }
        if !plan.ghosts.is_empty() {
            // without the crafted neighbours (and the steps that address them)
            let mut p = plan.clone();
            p.ghosts.clear();
            p.steps.retain(|s| match s {
                DStep::ImportCap { d, .. } | DStep::Open { d } | DStep::Close { d } | DStep::Remove { d } | DStep::SetPolicy { d, .. } | DStep::Register { d, .. } => (*d as usize) < crate::world::N_DOCS,
                _ => true,
            });
            out.push(p);
        }
        if plan.backend != Backend::Mem && !plan.steps.iter().any(|s| matches!(s, DStep::Restart | DStep::FlushCrash { .. } | DStep::DropDerived { .. } | DStep::Reopen { .. } | DStep::OldFormat { .. } | DStep::CrashEnd { .. } | DStep::RemoveCrash { .. })) {
            let mut p = plan.clone();
            p.backend = Backend::Mem;
            out.push(p);
        }
        for (i, s) in plan.steps.iter().enumerate() {
            if let DStep::Offer { e, path } = s {
                if !e.k.is_empty() {
                    let mut p = plan.clone();
                    let mut e2 = e.clone();
                    e2.k.pop();
                    p.steps[i] = DStep::Offer { e: e2, path: *path };
                    out.push(p);
                }
                if *path != Path::Remote && self.mode != Mode::Cap {
                    let mut p = plan.clone();
                    p.steps[i] = DStep::Offer { e: e.clone(), path: Path::Remote };
                    out.push(p);
                }
            }
        }
        out
    }

    fn components(&self) -> (Vec<&'static str>, Vec<&'static str>) {
        (
            vec!["store::fs::Store (import_namespace, remove_replica, register_useful_peer, get_sync_peers, set/get_download_policy, list_namespaces, content_hashes, get_latest_for_each_author)", "store::fs::migrations", "sync::Capability::merge, Replica::insert / delete_prefix", "store::fs::bounds (namespace bounds)", "redb"],
            vec!["disk (SimDisk with clean restart and post-flush crash L1/L2; in-memory; file)", "wall clock (thread-local hook)", "older-version database (derived tables deleted with plain redb)"],
        )
    }

    fn rule(&self) -> String {
        "A run is a history of 5-40 steps over 2-4 documents with adjacent ids (real key pairs sorted by id, half of them ending in 0xFF; in a quarter of the runs - three quarters for C16 - also 1-3 read-only documents with crafted ids: predecessor, successor, last byte FF and its successor, +-256, all-FF, all-zero of a real id, which take settings but never entries): capability imports (read/write), open/close, local/remote/in-message writes, remove and re-create, download policies, useful-peer registrations (1-9 peers, per-run clock), clean restarts, flush+crash (L1/L2), derived-table drops and repeated reopens, with full observations in between compared with the RefStore model. Non-trivial: a restart/crash/rebuild fault fired or a rare branch (eviction, removal with residue candidates, refused write) was hit.".into()
    }
}

impl Docs {
    async fn run(&self, plan: &DocsPlan, cx: &mut Cx) -> Res {
        let w = world();
        let mut sut = Sut::new(plan.backend)?;
        let mut m: Vec<DocModel> = vec![DocModel::default(); crate::world::N_DOCS + plan.ghosts.len()];
        let mut clock: i64 = 1_000_000;
        let mode = self.mode;
        // per document, since its (re-)creation: peers ever registered, policies ever set, whether
        // the write capability was ever imported
        let mut ever_peers: Vec<BTreeSet<u8>> = vec![BTreeSet::new(); m.len()];
        let mut ever_policies: Vec<Vec<Vec<u8>>> = vec![Vec::new(); m.len()];
        let mut ever_write: Vec<bool> = vec![false; m.len()];
        let mut ever_existed: Vec<bool> = vec![false; m.len()];
        for (si, step) in plan.steps.iter().enumerate() {
            match step {
                DStep::ImportCap { d, write } => {
                    let write = &(*write && !plan.is_ghost(*d));
                    let cap = if *write { Capability::Write(w.docs[*d as usize].clone()) } else { Capability::Read(plan.ns(*d)) };
                    let before: Vec<Option<bool>> = m.iter().map(|x| x.cap).collect();
                    let r = sut.store().import_namespace(cap).map_err(|e| harness(format!("import: {e:#}")))?;
                    ever_existed[*d as usize] = true;
                    ever_write[*d as usize] |= *write;
                    let dm = &mut m[*d as usize];
                    dm.cap = Some(dm.cap.unwrap_or(false) || *write);
                    cx.ev("import", format!("d{d} write={write} -> {r:?}"));
                    let _ = before;
                }
                DStep::Open { d } => {
                    let r = sut.store().load_replica_info(&plan.ns(*d));
                    cx.ev("open", format!("d{d} -> {}", r.is_ok()));
                    match (r.is_ok(), m[*d as usize].cap.is_some()) {
                        (true, true) => m[*d as usize].open = true,
                        (false, false) => {}
                        (ok, exists) => {
                            if mode == Mode::Remove || mode == Mode::Cap {
                                return Err(Violation::new("open/mismatch", format!("step {si}: opening d{d} returned ok={ok} but the document exists={exists}")));
                            }
                        }
                    }
                }
                DStep::Close { d } => {
                    sut.store().close_replica(plan.ns(*d));
                    m[*d as usize].open = false;
                    cx.ev("close", format!("d{d}"));
                }
                DStep::Offer { e, path } => {
                    let dm = &mut m[e.d as usize];
                    let got = offer(sut.store(), e, *path).await?;
                    // `offer` opens and closes the replica around the operation
                    let was_open = dm.open;
                    if was_open && dm.cap.is_some() {
                        let _ = sut.store().load_replica_info(&plan.ns(e.d));
                    }
                    cx.ev("offer", format!("{} {:?} -> {:?}", e.short(), path, got));
                    match dm.cap {
                        None => {
                            if !matches!(got, OfferResult::Error(_)) {
                                return Err(Violation::new("missing-doc/write-accepted", format!("step {si}: {} was accepted for a document that does not exist", e.short())));
                            }
                        }
                        Some(write) => {
                            if *path == Path::Local && !write {
                                cx.probe("local_write_on_read_only");
                                if !matches!(got, OfferResult::Error(_)) {
                                    if mode == Mode::Cap {
                                        return Err(Violation::new("write-without-cap/accepted", format!("step {si}: local write {} succeeded on a read-only document", e.short())));
                                    }
                                    dm.doc.offer(e);
                                }
                            } else {
                                let want = dm.doc.offer(e);
                                if mode == Mode::Cap {
                                    match (&got, want) {
                                        (OfferResult::Error(msg), _) => {
                                            let class = if *path == Path::Local { "write-with-cap/refused" } else { "remote-rejected/read-only" };
                                            return Err(Violation::new(class, format!("step {si}: {} via {:?} failed on a document with write={write}: {msg}", e.short(), path)));
                                        }
                                        _ => {}
                                    }
                                }
                            }
                        }
                    }
                }
                DStep::Remove { d } => {
                    let others_before: Vec<(u8, Obs)> = if mode == Mode::Remove {
                        let mut v = Vec::new();
                        for o in 0..m.len() as u8 {
                            if o != *d {
                                v.push((o, observe(sut.store(), plan.ns(o)).map_err(harness)?));
                            }
                        }
                        v
                    } else {
                        Vec::new()
                    };
                    let r = sut.store().remove_replica(&plan.ns(*d));
                    let dm = &mut m[*d as usize];
                    cx.ev("remove", format!("d{d} open={} -> {}", dm.open, r.is_ok()));
                    if dm.open {
                        cx.probe("remove_while_open");
                        if r.is_ok() {
                            if mode == Mode::Remove {
                                return Err(Violation::new("refuse-open/removed", format!("step {si}: d{d} was removed while open")));
                            }
                            *dm = DocModel::default();
                        }
                    } else {
                        if let Err(e) = &r {
                            if mode == Mode::Remove && dm.cap.is_some() {
                                return Err(Violation::new("remove/failed", format!("step {si}: removing closed d{d} failed: {e:#}")));
                            }
                        }
                        if r.is_ok() {
                            if !dm.doc.0.is_empty() || !dm.peers.is_empty() || dm.policy.is_some() {
                                cx.probe("removed_nonempty_document");
                            }
                            *dm = DocModel::default();
                            // (what the document had in its earlier life stays acceptable after a
                            // crash: the removal itself may not have become durable)
                        }
                    }
                    if mode == Mode::Remove {
                        for (o, before) in others_before {
                            let after = observe(sut.store(), plan.ns(o)).map_err(harness)?;
                            if after != before {
                                let what = if after.entries != before.entries { "entries" } else if after.heads != before.heads || after.head_keys != before.head_keys { "heads" } else if after.peers != before.peers { "peers" } else if after.policy != before.policy { "policy" } else if after.cap != before.cap { "capability" } else { "index" };
                                return Err(Violation::new(format!("collateral/{what}"), format!("step {si}: removing d{d} changed the {what} of d{o}")));
                            }
                        }
                    }
                }
                DStep::SetPolicy { d, p } => {
                    let r = sut.store().set_download_policy(&plan.ns(*d), p.real());
                    let dm = &mut m[*d as usize];
                    cx.ev("set-policy", format!("d{d} -> {}", r.is_ok()));
                    match (r.is_ok(), dm.cap.is_some()) {
                        (true, true) => {
                            ever_policies[*d as usize].push(postcard::to_stdvec(&p.real()).unwrap());
                            dm.policy = Some(p.clone())
                        }
                        (false, false) => {
                            cx.probe("policy_for_missing_document_refused");
                        }
                        (true, false) => {
                            if mode == Mode::Policy {
                                return Err(Violation::new("missing-doc/policy-set", format!("step {si}: a policy was set for d{d}, which does not exist")));
                            }
                        }
                        (false, true) => {
                            if mode == Mode::Policy {
                                return Err(Violation::new("persist/set-failed", format!("step {si}: setting a policy for existing d{d} failed")));
                            }
                        }
                    }
                }
                DStep::Register { d, peer, dt } => {
                    clock += dt;
                    if *dt <= 0 {
                        cx.fault(if *dt == 0 { "clock_stall" } else { "clock_backward_jump" });
                    }
                    iroh_docs::verif::set_wall_clock_micros(Some(clock.max(1) as u64));
                    let r = sut.store().register_useful_peer(plan.ns(*d), w.peers[*peer as usize]);
                    iroh_docs::verif::set_wall_clock_micros(None);
                    let dm = &mut m[*d as usize];
                    cx.ev("register", format!("d{d} p{peer} dt={dt} -> {}", r.is_ok()));
                    match (r.is_ok(), dm.cap.is_some()) {
                        (true, true) => {
                            ever_peers[*d as usize].insert(*peer);
                            dm.peers.retain(|p| p != peer);
                            dm.peers.insert(0, *peer);
                            if dm.peers.len() > 5 {
                                dm.peers.truncate(5);
                                cx.probe("peer_evicted");
                            }
                        }
                        (false, false) => {
                            cx.probe("register_for_missing_document_refused");
                        }
                        (true, false) => {
                            if matches!(mode, Mode::Peers | Mode::PeersClockFault) {
                                return Err(Violation::new("mru/unknown-doc", format!("step {si}: registering a peer for d{d}, which does not exist, succeeded")));
                            }
                        }
                        (false, true) => {
                            if matches!(mode, Mode::Peers | Mode::PeersClockFault) {
                                return Err(Violation::new("mru/register-failed", format!("step {si}: registering a peer for existing d{d} failed")));
                            }
                        }
                    }
                }
                DStep::Restart => {
                    if sut.can_restart() {
                        sut.restart_clean()?;
                        for dm in m.iter_mut() {
                            dm.open = false;
                        }
                        cx.fault("clean_restart");
                        cx.ev("restart", "");
                    }
                }
                DStep::FlushCrash { l2 } => {
                    if sut.can_restart() {
                        sut.store().flush().map_err(|e| harness(format!("flush: {e:#}")))?;
                        sut.crash(if *l2 { Loss::L2 } else { Loss::L1 })?;
                        for dm in m.iter_mut() {
                            dm.open = false;
                        }
                        cx.fault(if *l2 { "crash_after_flush_L2" } else { "crash_after_flush_L1" });
                        cx.ev("flush-crash", format!("{l2}"));
                    }
                }
                DStep::DropDerived { by_key, heads } => {
                    if sut.backend == Backend::Disk && (*by_key || *heads) {
                        let before: Vec<Obs> = if mode == Mode::Migrate { (0..m.len() as u8).map(|d| observe(sut.store(), plan.ns(d)).map_err(harness)).collect::<Res<_>>()? } else { vec![] };
                        drop_derived(&mut sut, *by_key, *heads)?;
                        for dm in m.iter_mut() {
                            dm.open = false;
                        }
                        cx.fault("older_version_database");
                        cx.ev("drop-derived", format!("{by_key} {heads}"));
                        if mode == Mode::Migrate {
                            // the open that rebuilds the tables may itself be interrupted: every crash
                            // point of it (all writes so far / synced writes only) must, when opened
                            // again, give the same answers as the uninterrupted open
                            let disk = sut.disk.as_ref().unwrap().clone();
                            let n_open = disk.log_len();
                            let mut seen = std::collections::HashSet::new();
                            for w in 0..=n_open {
                                for loss in [Loss::L1, Loss::L2] {
                                    let img = disk.image_at(w, loss);
                                    if !seen.insert(crate::rng::fnv(&img)) {
                                        continue;
                                    }
                                    cx.fault("crash_during_the_rebuilding_open");
                                    let dd = crate::disk::SimDisk::from_image(img);
                                    let mut st = match Store::verif_with_backend(dd.clone()) {
                                        Ok(st) => st,
                                        Err(e) => return Err(Violation::new("rebuild/open-fails-after-interrupted-open", format!("step {si}: {loss:?} crash after disk op {w}/{n_open} of the open that rebuilds the derived tables: opening again fails: {e:#}"))),
                                    };
                                    for (d, b) in before.iter().enumerate() {
                                        let a = observe(&mut st, plan.ns(d as u8)).map_err(harness)?;
                                        let what = if a.heads != b.heads { Some("heads") } else if a.by_key != b.by_key { Some("index") } else if a.entries != b.entries { Some("entries") } else { None };
                                        if let Some(what) = what {
                                            return Err(Violation::new(format!("rebuild/{what}-after-interrupted-open"), format!("step {si}: {loss:?} crash after disk op {w}/{n_open} of the open that rebuilds the derived tables (by_key={by_key}, heads={heads}); after opening again d{d} answers differently ({what}: {} heads / {} index rows / {} entries, expected {} / {} / {})", a.heads.len(), a.by_key.len(), a.entries.len(), b.heads.len(), b.by_key.len(), b.entries.len())));
                                        }
                                    }
                                    dd.freeze();
                                    drop(st);
                                }
                            }
                            for (d, b) in before.iter().enumerate() {
                                let a = observe(sut.store(), plan.ns(d as u8)).map_err(harness)?;
                                if a.heads != b.heads {
                                    return Err(Violation::new("rebuild/heads", format!("step {si}: after reopening without the derived tables (by_key={by_key}, heads={heads}) d{d} reports heads {:?}, before {:?}", short_heads(&a.heads), short_heads(&b.heads))));
                                }
                                if a.by_key != b.by_key {
                                    return Err(Violation::new("rebuild/index", format!("step {si}: after reopening without the derived tables the key-ordered query of d{d} returns {} entries, before {}", a.by_key.len(), b.by_key.len())));
                                }
                                // (the key reported with a head is not compared here: with equal
                                // timestamps the maintained table holds the entry that arrived last,
                                // which a rebuild cannot know; the statement speaks of heads, i.e. timestamps)
                                if (&a.entries, &a.peers, &a.policy, &a.cap) != (&b.entries, &b.peers, &b.policy, &b.cap) {
                                    return Err(Violation::new("rebuild/other", format!("step {si}: reopening without derived tables changed other observations of d{d}")));
                                }
                            }
                        }
                    }
                }
                DStep::Reopen { times } => {
                    if sut.can_restart() {
                        let before: Vec<Obs> = if mode == Mode::Migrate { (0..m.len() as u8).map(|d| observe(sut.store(), plan.ns(d)).map_err(harness)).collect::<Res<_>>()? } else { vec![] };
                        for _ in 0..*times {
                            sut.restart_clean()?;
                            cx.fault("clean_restart");
                        }
                        for dm in m.iter_mut() {
                            dm.open = false;
                        }
                        cx.ev("reopen", format!("{times}"));
                        if mode == Mode::Migrate {
                            for (d, b) in before.iter().enumerate() {
                                let a = observe(sut.store(), plan.ns(d as u8)).map_err(harness)?;
                                if &a != b {
                                    let what = if a.entries != b.entries { "entries" } else if a.by_key != b.by_key { "key-ordered query" } else if a.heads != b.heads { "heads" } else if a.head_keys != b.head_keys { "the key reported with a head" } else if a.peers != b.peers { "peers" } else if a.policy != b.policy { "policy" } else { "capability" };
                                    return Err(Violation::new("reopen-noop/changed", format!("step {si}: reopening an up-to-date database {times} times changed {what} of d{d}")));
                                }
                            }
                        }
                    }
                }
                DStep::Observe => {
                    self.check_all(plan, sut.store(), &m, si, cx)?;
                }
                DStep::OldFormat { keep_heads, keep_by_key } => {
                    if sut.backend != Backend::File {
                        continue;
                    }
                    let before: Vec<Obs> = (0..m.len() as u8).map(|d| observe(sut.store(), plan.ns(d)).map_err(harness)).collect::<Res<_>>()?;
                    crate::sut::rewrite_in_old_format(&mut sut, *keep_heads, *keep_by_key)?;
                    for dm in m.iter_mut() {
                        dm.open = false;
                    }
                    cx.fault("database_file_in_redb_2_format");
                    cx.ev("old-format", format!("{keep_heads} {keep_by_key}"));
                    // each property judges what it promises across a reopen: C18 entries, heads and
                    // the key-ordered query; C17 the peer list; C15 the policy; C07 the capability
                    for (d, b) in before.iter().enumerate() {
                        let a = observe(sut.store(), plan.ns(d as u8)).map_err(harness)?;
                        let ctx = format!("step {si}: after opening the same content from a database file in the redb 2.x format (heads table kept={keep_heads}, index kept={keep_by_key}) d{d}");
                        match mode {
                            Mode::Migrate => {
                                let what = if a.entries != b.entries { Some(("other", "entries")) } else if a.heads != b.heads { Some(("heads", "heads")) } else if a.by_key != b.by_key { Some(("index", "key-ordered query")) } else { None };
                                if let Some((class, what)) = what {
                                    return Err(Violation::new(format!("rebuild/{class}-old-format"), format!("{ctx} answers differently: {what} ({} heads / {} index rows / {} entries, before {} / {} / {})", a.heads.len(), a.by_key.len(), a.entries.len(), b.heads.len(), b.by_key.len(), b.entries.len())));
                                }
                            }
                            Mode::Peers | Mode::PeersClockFault => {
                                if a.peers != b.peers {
                                    return Err(Violation::new("mru/persist-old-format", format!("{ctx} lists {:?} useful peers, before {:?}: the list did not survive reopening", a.peers.as_ref().map(|p| p.len()), b.peers.as_ref().map(|p| p.len()))));
                                }
                            }
                            Mode::Policy => {
                                if a.policy != b.policy {
                                    return Err(Violation::new("persist/policy-old-format", format!("{ctx} returns a different download policy than before")));
                                }
                            }
                            Mode::Cap => {
                                if a.cap != b.cap {
                                    return Err(Violation::new("downgrade/reopen-old-format", format!("{ctx} lists capability {:?}, before {:?}", a.cap, b.cap)));
                                }
                            }
                            Mode::Remove => {}
                        }
                    }
                }
                DStep::CrashEnd { l2 } => {
                    if sut.backend != Backend::Disk {
                        continue;
                    }
                    sut.crash(if *l2 { Loss::L2 } else { Loss::L1 })?;
                    cx.fault(if *l2 { "crash_without_flush_L2" } else { "crash_without_flush_L1" });
                    cx.ev("crash-end", format!("l2={l2}"));
                    let default_policy = postcard::to_stdvec(&DownloadPolicy::default()).unwrap();
                    for dd in 0..m.len() as u8 {
                        let i = dd as usize;
                        let o = observe(sut.store(), plan.ns(dd)).map_err(harness)?;
                        let problem = if o.cap.is_none() && (o.peers.is_some() || o.policy != default_policy || !o.entries.is_empty() || !o.heads.is_empty()) {
                            Some(("unlisted-document", format!("is not listed but shows peers={:?} policy-set={} entries={} heads={}", o.peers.as_ref().map(|p| p.len()), o.policy != default_policy, o.entries.len(), o.heads.len())))
                        } else if o.cap.is_some() && !ever_existed[i] {
                            Some(("capability", "is listed although no capability was ever imported for it".to_string()))
                        } else if o.cap == Some(1) && !ever_write[i] {
                            Some(("capability", "is listed as writable although the write capability was never imported".to_string()))
                        } else if let Some(p) = o.peers.as_ref().filter(|p| p.len() > 5 || p.iter().collect::<BTreeSet<_>>().len() != p.len() || p.iter().any(|x| !ever_peers[i].iter().any(|q| &w.peers[*q as usize] == x))) {
                            Some(("peers", format!("has a peer list of {} entries that is too long, repeats a peer or names a peer never registered for it", p.len())))
                        } else if o.policy != default_policy && !ever_policies[i].contains(&o.policy) {
                            Some(("policy", "returns a download policy that was never set for it".to_string()))
                        } else {
                            None
                        };
                        if let Some((what, detail)) = problem {
                            return Err(Violation::new(format!("after-crash/{what}"), format!("step {si}: after an unflushed crash d{dd} {detail}")));
                        }
                    }
                    return Ok(());
                }
                DStep::RemoveCrash { d, at, l2 } => {
                    if mode != Mode::Remove || sut.backend != Backend::Disk {
                        continue;
                    }
                    sut.store().close_replica(plan.ns(*d));
                    let (_calls, fired) = crate::ops::arm_age(*at);
                    let r = sut.store().remove_replica(&plan.ns(*d));
                    crate::ops::disarm_age();
                    if fired.get() {
                        cx.fault("age_commit_inside_removal");
                    }
                    sut.crash(if *l2 { Loss::L2 } else { Loss::L1 })?;
                    cx.fault(if *l2 { "crash_without_flush_L2" } else { "crash_without_flush_L1" });
                    cx.ev("remove-crash", format!("d{d} at={at} l2={l2} -> {}", r.is_ok()));
                    let default_policy = postcard::to_stdvec(&DownloadPolicy::default()).unwrap();
                    for dd in 0..m.len() as u8 {
                        let o = observe(sut.store(), plan.ns(dd)).map_err(harness)?;
                        if o.cap.is_none() {
                            let residue = if !o.entries.is_empty() || !o.by_key.is_empty() { Some("entries") } else if !o.heads.is_empty() { Some("heads") } else if o.peers.is_some() { Some("peers") } else if o.policy != default_policy { Some("policy") } else { None };
                            if let Some(what) = residue {
                                return Err(Violation::new(format!("residue/{what}/after-crash"), format!("step {si}: after a crash that followed the removal of d{d}, the reopened store does not list d{dd} but still shows its {what}: {:?}", (o.entries.len(), o.by_key.len(), short_heads(&o.heads), o.peers.as_ref().map(|p| p.len())))));
                            }
                        }
                    }
                    return Ok(());
                }
            }
        }
        Ok(())
    }

    fn check_all(&self, plan: &DocsPlan, store: &mut Store, m: &[DocModel], si: usize, cx: &mut Cx) -> Res {
        let w = world();
        let mode = self.mode;
        let mut all_hashes: BTreeSet<[u8; 32]> = BTreeSet::new();
        for (d, dm) in m.iter().enumerate() {
            let d = d as u8;
            let o = observe(store, plan.ns(d)).map_err(harness)?;
            cx.ev("observe", format!("d{d} entries={} heads={} peers={:?} cap={:?}", o.entries.len(), o.heads.len(), o.peers.as_ref().map(|p| p.len()), o.cap));
            let want_entries: Vec<Vec<u8>> = dm.doc.0.values().map(|e| postcard::to_stdvec(&e.signed()).unwrap()).collect();
            {
                // whatever the mode: the two access paths show the same entries
                let (mut a, mut b) = (o.entries.clone(), o.by_key.clone());
                a.sort();
                b.sort();
                if a != b && mode != Mode::Migrate {
                    let class = match mode { Mode::Remove => "collateral/index", _ => "state/index" };
                    return Err(Violation::new(class, format!("step {si}: d{d}: the author-ordered query returns {} entries, the key-ordered query {}", a.len(), b.len())));
                }
            }
            if plan.is_ghost(d) {
                cx.probe("crafted_neighbour_observed");
                if matches!(mode, Mode::Remove | Mode::Migrate) && (!o.entries.is_empty() || !o.by_key.is_empty() || !o.heads.is_empty()) {
                    return Err(Violation::new("collateral/neighbour-id-sees-entries", format!("step {si}: the crafted read-only document {} (never written to) shows {} entries / {} index rows / {} heads of a document next to it", hex::encode(&plan.ns(d).to_bytes()[28..]), o.entries.len(), o.by_key.len(), o.heads.len())));
                }
            }
            for e in dm.doc.0.values() {
                all_hashes.insert(*crate::world::content(e.c).0.as_bytes());
            }
            match mode {
                Mode::Cap => {
                    let want = dm.cap.map(|w| if w { 1u8 } else { 2 });
                    if o.cap != want {
                        let class = match (o.cap, want) {
                            (Some(2), Some(1)) => "downgrade/observed",
                            (None, Some(_)) => "capability/lost",
                            (Some(_), None) => "cross-doc/appeared",
                            _ => "capability/mismatch",
                        };
                        return Err(Violation::new(class, format!("step {si}: d{d} lists capability {:?} (1=write, 2=read), expected {:?}", o.cap, want)));
                    }
                    if o.entries != want_entries {
                        return Err(Violation::new("cap-state/entries", format!("step {si}: d{d} holds {} entries, the accepted writes give {}", o.entries.len(), want_entries.len())));
                    }
                }
                Mode::Policy => {
                    let want = dm.policy.clone().map(|p| p.real()).unwrap_or_default();
                    let want = postcard::to_stdvec(&want).unwrap();
                    if o.policy != want {
                        return Err(Violation::new("persist/policy", format!("step {si}: d{d} returns a different download policy than the one last set ({:?})", dm.policy)));
                    }
                }
                Mode::Remove => {
                    if dm.cap.is_none() {
                        let residue = if !o.entries.is_empty() || !o.by_key.is_empty() { Some("entries") } else if !o.heads.is_empty() { Some("heads") } else if o.peers.is_some() { Some("peers") } else if o.policy != postcard::to_stdvec(&DownloadPolicy::default()).unwrap() { Some("policy") } else if o.cap.is_some() { Some("capability") } else { None };
                        if let Some(r) = residue {
                            return Err(Violation::new(format!("residue/{r}"), format!("step {si}: d{d} does not exist (removed or never created) but its {r} are still observable: {:?}", (o.entries.len(), short_heads(&o.heads), o.peers.as_ref().map(|p| p.len())))));
                        }
                    } else {
                        if o.entries != want_entries {
                            return Err(Violation::new("recreate/entries", format!("step {si}: d{d} holds {} entries, the model {} (a re-created document must start empty)", o.entries.len(), want_entries.len())));
                        }
                        let want_heads: Vec<([u8; 32], u64)> = dm.doc.heads().into_iter().map(|(a, t)| (w.author_id(a).to_bytes(), t)).collect();
                        let mut wh = want_heads.clone();
                        wh.sort();
                        if o.heads != wh {
                            return Err(Violation::new("residue/heads", format!("step {si}: d{d} reports heads {:?}, its entries give {:?}", short_heads(&o.heads), short_heads(&wh))));
                        }
                        let want_peers: Option<Vec<[u8; 32]>> = if dm.peers.is_empty() { None } else { Some(dm.peers.iter().map(|p| w.peers[*p as usize]).collect()) };
                        if o.peers != want_peers {
                            return Err(Violation::new("residue/peers", format!("step {si}: d{d} peers {:?} expected {:?}", o.peers.as_ref().map(|p| p.len()), want_peers.as_ref().map(|p| p.len()))));
                        }
                    }
                }
                Mode::Peers | Mode::PeersClockFault => {
                    let want_peers: Option<Vec<[u8; 32]>> = if dm.peers.is_empty() { None } else { Some(dm.peers.iter().map(|p| w.peers[*p as usize]).collect()) };
                    if o.peers != want_peers {
                        let got = o.peers.clone().unwrap_or_default();
                        let idx = |p: &[u8; 32]| w.peers.iter().position(|x| x == p).map(|i| i as i32).unwrap_or(-1);
                        let got_i: Vec<i32> = got.iter().map(idx).collect();
                        let uniq: BTreeSet<_> = got_i.iter().collect();
                        let kind = if got.len() > 5 { "size" } else if uniq.len() != got_i.len() { "dup" } else if { let mut a = got_i.clone(); a.sort(); let mut b: Vec<i32> = dm.peers.iter().map(|p| *p as i32).collect(); b.sort(); a == b } { "order" } else { "membership" };
                        let suffix = if mode == Mode::PeersClockFault { "clock=fault/" } else { "" };
                        return Err(Violation::new(format!("mru/{suffix}{kind}"), format!("step {si}: d{d} peers {:?}, most-recently-registered-first gives {:?}", got_i, dm.peers)));
                    }
                }
                Mode::Migrate => {
                    // heads and the key-ordered query must answer as on a store that maintained them
                    let want_heads: BTreeMap<u8, u64> = dm.doc.heads();
                    let mut wh: Vec<([u8; 32], u64)> = want_heads.into_iter().map(|(a, t)| (w.author_id(a).to_bytes(), t)).collect();
                    wh.sort();
                    if o.entries == want_entries && o.heads != wh {
                        return Err(Violation::new("rebuild/heads", format!("step {si}: d{d} heads {:?}, entries give {:?}", short_heads(&o.heads), short_heads(&wh))));
                    }
                    let mut a = o.by_key.clone();
                    let mut b = o.entries.clone();
                    a.sort();
                    b.sort();
                    if a != b {
                        return Err(Violation::new("rebuild/index", format!("step {si}: d{d} key-ordered query returns {} entries, author-ordered {}", o.by_key.len(), o.entries.len())));
                    }
                }
            }
        }
        if mode == Mode::Remove {
            let got: BTreeSet<[u8; 32]> = store
                .content_hashes()
                .map_err(|e| harness(format!("{e:#}")))?
                .map(|h| h.map(|h| *h.as_bytes()).map_err(|e| harness(format!("{e:#}"))))
                .collect::<Res<_>>()?;
            if got != all_hashes {
                let kind = if got.is_superset(&all_hashes) { "extra" } else { "missing" };
                return Err(Violation::new(format!("hashes/{kind}"), format!("step {si}: content_hashes reports {} distinct hashes, held entries of all documents have {}", got.len(), all_hashes.len())));
            }
        }
        Ok(())
    }
}

fn short_heads(h: &[([u8; 32], u64)]) -> Vec<(String, u64)> {
    h.iter().map(|(a, t)| (hex::encode(&a[..3]), *t)).collect()
}
