//! Scenario `coord` (C11): two real `LiveActor`s (real store actors; Endpoint, Gossip, blob store
//! and downloader are real objects that carry no traffic) in the paused runtime. A guarded dial
//! seam hands every outgoing dial to the driver, which owns the "network": it decides which
//! requests are delivered, lost or broken, which replies arrive, and how and when each end of a
//! session finishes. After every step the quiescence barrier runs, so the order in which the
//! two actors see events is exactly the plan.

use std::{
    cell::RefCell,
    rc::Rc,
    sync::{Arc, Mutex},
};

use iroh::{endpoint::presets, Endpoint, PublicKey, SecretKey};
use iroh_docs::{
    actor::SyncHandle,
    engine::{
        verif::{LiveActor, SyncReport, ToLiveActor, VerifDialFn, VerifPeerState},
        Origin, SyncReason,
    },
    net::{AbortReason, AcceptError, AcceptOutcome, ConnectError, SyncFinished},
    store::Store,
    AuthorHeads, Capability, NamespaceId, SyncOutcome,
};
use iroh_gossip::net::Gossip;
use serde::{Deserialize, Serialize};
use tokio::sync::{mpsc, oneshot};

use crate::{
    rng::Rng,
    runner::{barrier, shrink_vec, Cx, Res, Scenario, Tier, Violation},
    sut::harness,
    world::world,
};

pub struct Coord;

#[derive(Serialize, Deserialize, Clone, Debug)]
pub enum CStep {
    /// `l` selects the lane (document x pair of nodes, modulo the number of lanes), `x` the side
    NeighborUp {
        #[serde(default)]
        l: u8,
        x: u8,
    },
    /// a sync report from the other node arrives at x; `news`: it names an author x does not have
    SyncReport {
        #[serde(default)]
        l: u8,
        x: u8,
        news: bool,
    },
    /// deliver the request of pending dial `d` (index modulo undelivered dials of the lane) to the callee
    DeliverRequest {
        #[serde(default)]
        l: u8,
        d: u8,
    },
    /// the request is lost: the dial fails to connect
    LoseRequest {
        #[serde(default)]
        l: u8,
        d: u8,
    },
    /// the stream dies before the callee has read the request
    BrokenRequest {
        #[serde(default)]
        l: u8,
        d: u8,
    },
    /// the callee's decline reaches the dialer (index modulo declined dials)
    DeliverAbort {
        #[serde(default)]
        l: u8,
        d: u8,
    },
    /// the decline is lost: the dial fails with a stream error
    LoseAbort {
        #[serde(default)]
        l: u8,
        d: u8,
    },
    FinishDialSide {
        #[serde(default)]
        l: u8,
        s: u8,
        ok: bool,
    },
    FinishAcceptSide {
        #[serde(default)]
        l: u8,
        s: u8,
        ok: bool,
    },
    /// node x stops syncing the lane's document (only carried out while nothing of that node and
    /// document is in flight) / starts syncing it again
    Leave {
        #[serde(default)]
        l: u8,
        x: u8,
    },
    Rejoin {
        #[serde(default)]
        l: u8,
        x: u8,
    },
    /// node x is asked to start syncing a document its store does not hold (the request fails;
    /// the document must not count as synced afterwards)
    StartSyncUnknown {
        #[serde(default)]
        l: u8,
        x: u8,
    },
    /// the gossip layer reports the other node of the lane as gone (must not touch the slot)
    NeighborDown {
        #[serde(default)]
        l: u8,
        x: u8,
    },
    /// a request for a document that the callee is not syncing (`held`: but holds in its store)
    UnknownDocRequest {
        #[serde(default)]
        l: u8,
        x: u8,
        #[serde(default)]
        held: bool,
    },
}

fn one() -> u8 {
    1
}
fn two() -> u8 {
    2
}

#[derive(Serialize, Deserialize, Clone, Debug)]
pub struct CoordPlan {
    pub seed: u64,
    /// which secret key gives node 0 (so that both id orders occur)
    pub swap_ids: bool,
    /// rotation of the three node keys (only with three nodes)
    #[serde(default)]
    pub rot: u8,
    /// documents that all nodes sync (1-2) and nodes (2-3); a lane is a document and a pair of nodes
    #[serde(default = "one")]
    pub docs: u8,
    #[serde(default = "two")]
    pub nodes: u8,
    pub steps: Vec<CStep>,
    /// how leftovers are resolved at the end: bit i = finish ok
    pub cleanup: u16,
}

type DialRes = Result<SyncFinished, ConnectError>;
type AcceptRes = Result<SyncFinished, AcceptError>;

struct Dial {
    id: usize,
    lane: usize,
    /// dialing node (index into `nodes`) and the node it dials
    from: usize,
    to: usize,
    reason: SyncReason,
    resolve: Option<oneshot::Sender<DialRes>>,
    /// request delivered to the callee?
    delivered: bool,
    /// callee's answer, once delivered
    outcome: Option<AcceptOutcome>,
    /// accept side of an allowed session, until finished
    accept_fin: Option<oneshot::Sender<AcceptRes>>,
    dial_done: bool,
    accept_done: bool,
    born_step: usize,
    /// ids of the callee's own unresolved dials at the moment this request was delivered
    peer_open: Vec<usize>,
    /// the callee was still busy with an accepted session of the caller when this was delivered
    callee_accepting: bool,
    /// the callee was syncing the document when the request was delivered
    callee_synced: bool,
}

#[derive(Default)]
struct Net {
    new_dials: Vec<(usize, NamespaceId, PublicKey, SyncReason, oneshot::Sender<DialRes>)>,
}

pub struct CNode {
    pub id: PublicKey,
    pub tx: mpsc::Sender<ToLiveActor>,
    pub sync: SyncHandle,
    _ep: Endpoint,
}

async fn mk_node(i: usize, key: [u8; 32], net: Arc<Mutex<Net>>, synced: &[&iroh_docs::NamespaceSecret], held: &[&iroh_docs::NamespaceSecret]) -> Result<CNode, String> {
    let n2 = net.clone();
    let dial: VerifDialFn = Arc::new(move |ns, peer, reason| {
        let (s, r) = oneshot::channel();
        n2.lock().unwrap().new_dials.push((i, ns, peer, reason, s));
        Box::pin(async move { r.await.unwrap_or_else(|_| Err(ConnectError::Connect { error: anyhow::anyhow!("dial dropped") })) })
    });
    mk_node_multi(key, dial, synced, held, &[]).await
}

pub async fn mk_node_with(key: [u8; 32], dial: VerifDialFn, ns: &iroh_docs::NamespaceSecret, entries: &[iroh_docs::SignedEntry]) -> Result<CNode, String> {
    mk_node_multi(key, dial, &[ns], &[], entries).await
}

/// Build one node: real store actor, real live actor with the given dial seam; Endpoint, Gossip,
/// blob store and downloader are real objects that carry no traffic.
/// `synced` documents are imported and synced (entries go into the first), `held` ones only imported.
pub async fn mk_node_multi(key: [u8; 32], dial: VerifDialFn, synced: &[&iroh_docs::NamespaceSecret], held: &[&iroh_docs::NamespaceSecret], entries: &[iroh_docs::SignedEntry]) -> Result<CNode, String> {
    let ns = synced[0];
    let ep = Endpoint::builder(presets::Minimal)
        .secret_key(SecretKey::from_bytes(&key))
        .bind()
        .await
        .map_err(|e| format!("bind: {e:#}"))?;
    let gossip = Gossip::builder().spawn(ep.clone());
    let blobs = iroh_blobs::store::mem::MemStore::new();
    let dl = blobs.downloader(&ep);
    let mut store = Store::memory();
    for d in synced.iter().chain(held.iter()) {
        store.import_namespace(Capability::Write((*d).clone())).map_err(|e| format!("{e:#}"))?;
    }
    if !entries.is_empty() {
        iroh_docs::verif::set_wall_clock_micros(Some(1_000_000));
        let mut r = store.open_replica(&ns.id()).map_err(|e| format!("{e}"))?;
        for e in entries {
            let _ = r.insert_remote_entry(e.clone(), [9u8; 32], iroh_docs::ContentStatus::Missing).await;
        }
        drop(r);
        store.close_replica(ns.id());
        iroh_docs::verif::set_wall_clock_micros(None);
    }
    let (sync, fut) = SyncHandle::verif_new_local(store, None);
    tokio::task::spawn_local(fut);
    let (tx, rx) = mpsc::channel(64);
    let mut actor = LiveActor::new(sync.clone(), ep.clone(), gossip, (*blobs).clone(), dl, rx, tx.clone(), sync.metrics().clone()).map_err(|e| format!("live actor: {e:#}"))?;
    actor.verif_set_dial(dial);
    tokio::task::spawn_local(async move {
        let _ = actor.run().await;
    });
    for d in synced {
        let (reply, rrx) = oneshot::channel();
        tx.send(ToLiveActor::StartSync { namespace: d.id(), peers: vec![], reply }).await.map_err(|_| "live actor gone".to_string())?;
        rrx.await.map_err(|_| "start sync dropped".to_string())?.map_err(|e| format!("start sync: {e:#}"))?;
    }
    Ok(CNode { id: ep.id(), tx, sync, _ep: ep })
}

pub async fn snapshot(n: &CNode, ns: NamespaceId, peer: PublicKey) -> Result<Option<VerifPeerState>, String> {
    let (reply, rx) = oneshot::channel();
    n.tx.send(ToLiveActor::VerifSnapshot { namespace: ns, peer, reply }).await.map_err(|_| "the live actor has stopped".to_string())?;
    rx.await.map_err(|_| "the live actor has stopped".to_string())
}

fn finished(ns: NamespaceId, peer: PublicKey) -> SyncFinished {
    SyncFinished { namespace: ns, peer, outcome: SyncOutcome::default(), timings: Default::default() }
}

#[derive(Serialize, Deserialize)]
struct MSyncReport {
    namespace: NamespaceId,
    heads: Vec<u8>,
}

pub fn sync_report(ns: NamespaceId, news: bool) -> SyncReport {
    let w = world();
    let mut h = AuthorHeads::default();
    if news {
        h.insert(w.author_id(0), 1_000);
    }
    let m = MSyncReport { namespace: ns, heads: h.encode(None).expect("encode heads") };
    postcard::from_bytes(&postcard::to_stdvec(&m).expect("ser")).expect("sync report mirror")
}

impl Scenario for Coord {
    type Plan = CoordPlan;
    fn name(&self) -> String {
        "coord".into()
    }

    fn gen(&self, rng: &mut Rng, tier: Tier) -> CoordPlan {
        // a third of the runs: the plain pair with one document; the rest add a second document, a
        // third node or both (then most steps still go to a few lanes so that sessions overlap)
        let (docs, nodes) = *rng.pick(&[(1u8, 2u8), (1, 2), (2, 2), (1, 3), (1, 3), (2, 3)]);
        let lanes = docs as u64 * if nodes == 3 { 3 } else { 1 };
        let n = rng.urange(3, tier.pick(14, 22)) + if lanes > 1 { rng.urange(0, 10) } else { 0 };
        let hot: Vec<u8> = (0..rng.range(1, lanes.min(3))).map(|_| rng.below(lanes) as u8).collect();
        let mut steps = Vec::new();
        for _ in 0..n {
            let x = rng.below(2) as u8;
            let l = if rng.chance(4, 5) { *rng.pick(&hot) } else { rng.below(lanes) as u8 };
            let s = match rng.below(30) {
                0..=4 => CStep::NeighborUp { l, x },
                5 => CStep::NeighborDown { l, x },
                6..=8 => CStep::SyncReport { l, x, news: rng.chance(3, 4) },
                9..=14 => CStep::DeliverRequest { l, d: rng.below(4) as u8 },
                15..=16 => CStep::LoseRequest { l, d: rng.below(4) as u8 },
                17 => CStep::BrokenRequest { l, d: rng.below(4) as u8 },
                18..=20 => CStep::DeliverAbort { l, d: rng.below(4) as u8 },
                21 => CStep::LoseAbort { l, d: rng.below(4) as u8 },
                22..=24 => CStep::FinishDialSide { l, s: rng.below(4) as u8, ok: rng.chance(2, 3) },
                25..=27 => CStep::FinishAcceptSide { l, s: rng.below(4) as u8, ok: rng.chance(2, 3) },
                28 => match rng.below(3) {
                    0 => CStep::StartSyncUnknown { l, x },
                    1 => CStep::Leave { l, x },
                    _ => CStep::Rejoin { l, x },
                },
                _ => CStep::UnknownDocRequest { l, x, held: rng.chance(1, 2) },
            };
            steps.push(s);
        }
        CoordPlan { seed: rng.next_u64(), swap_ids: rng.chance(1, 2), rot: rng.below(3) as u8, docs, nodes, steps, cleanup: rng.below(65536) as u16 }
    }

    fn exec(&self, plan: &CoordPlan, cx: &mut Cx) -> Res {
        let rt = tokio::runtime::Builder::new_current_thread()
            .enable_all()
            .start_paused(true)
            .rng_seed(tokio::runtime::RngSeed::from_bytes(&plan.seed.to_le_bytes()))
            .build()
            .map_err(|e| harness(format!("runtime: {e}")))?;
        let local = tokio::task::LocalSet::new();
        let r = local.block_on(&rt, run(plan, cx));
        drop(local);
        rt.shutdown_background();
        r
    }

    fn shrink(&self, plan: &CoordPlan) -> Vec<CoordPlan> {
        let mut out: Vec<CoordPlan> = shrink_vec(&plan.steps).into_iter().map(|c| CoordPlan { steps: c, ..plan.clone() }).collect();
        if plan.cleanup != 0xFFFF {
            out.push(CoordPlan { cleanup: 0xFFFF, ..plan.clone() });
        }
        out
    }

    fn components(&self) -> (Vec<&'static str>, Vec<&'static str>) {
        (
            vec!["engine::live::LiveActor (run loop, sync_with_peer, accept_sync_request, on_sync_via_connect_finished, on_sync_via_accept_finished, on_sync_finished, on_sync_report)", "engine::state (NamespaceStates, PeerState transitions, id-order tie-break)", "actor::SyncHandle (register_useful_peer, has_news_for_us)", "iroh Endpoint / iroh-gossip Gossip / mem blob store / downloader (constructed, idle)"],
            vec!["QUIC connect/accept and the session itself (dial seam + harness accept futures; session results are synthetic SyncFinished / error values)", "gossip delivery of neighbour and sync-report events (sent to the actor's inbox by the driver)"],
        )
    }

    fn rule(&self) -> String {
        "A run is 3-32 network decisions between two or three live actors (any id order) that sync one or two documents; every (document, pair of nodes) is a lane with its own oracles and steps name their lane: neighbour-up, neighbour-down and sync-report (news / no news) events, delivery / loss / breakage of each dial's request, delivery or loss of a decline, independent ok/failed completion of the dial side and the accept side of each session, requests for an unknown document; then every leftover is resolved and, at quiescence, in every lane both nodes must be idle for each other and demonstrably able to dial and to accept. Non-trivial: a loss/breakage/failure fault fired or a decline (AlreadySyncing / NotFound) or resync was observed.".into()
    }
}

pub fn running(s: &Option<VerifPeerState>) -> Option<Origin> {
    s.as_ref().and_then(|s| s.running.clone())
}

struct Lane {
    ns: NamespaceId,
    n: [usize; 2],
}

async fn run(plan: &CoordPlan, cx: &mut Cx) -> Res {
    let w = world();
    let ndocs = plan.docs.clamp(1, 2) as usize;
    let nn = plan.nodes.clamp(2, 3) as usize;
    let synced: Vec<&iroh_docs::NamespaceSecret> = w.docs[..ndocs].iter().collect();
    let held = [&w.docs[2]];
    let held_ns = w.doc_id(2);
    let unknown_ns = w.doc_id(3);
    let net = Arc::new(Mutex::new(Net::default()));
    let mut keys = vec![[1u8; 32], [2; 32], [3; 32]];
    if plan.swap_ids {
        keys.swap(0, 1);
    }
    if nn == 3 {
        keys.rotate_left(plan.rot as usize % 3);
    }
    let mut nodes: Vec<CNode> = Vec::new();
    for i in 0..nn {
        nodes.push(mk_node(i, keys[i], net.clone(), &synced, &held).await.map_err(harness)?);
    }
    let mut lanes: Vec<Lane> = Vec::new();
    for d in 0..ndocs {
        for a in 0..nn {
            for b in (a + 1)..nn {
                lanes.push(Lane { ns: synced[d].id(), n: [a, b] });
            }
        }
    }
    let nl = lanes.len();
    let mut order: Vec<usize> = (0..nn).collect();
    order.sort_by_key(|i| *nodes[*i].id.as_bytes());
    cx.ev("ids", format!("docs={ndocs} nodes={nn} id-order={order:?}"));

    let mut dials: Vec<Dial> = Vec::new();
    // which node currently syncs which of the documents (index into `synced` docs)
    let mut syncing: Vec<Vec<bool>> = vec![vec![true; ndocs]; nn];
    let doc_of = |l: usize| (0..ndocs).position(|d| synced[d].id() == lanes[l].ns).unwrap_or(0);
    let outcomes: Rc<RefCell<Vec<(usize, AcceptOutcome)>>> = Rc::new(RefCell::new(Vec::new()));
    let mut step_no = 0usize;
    // per lane and side: (epoch, armed_epoch) for the resync oracle
    let mut epoch = vec![[0u32; 2]; nl];
    let mut resync_armed: Vec<[Option<u32>; 2]> = vec![[None, None]; nl];
    let mut was_running = vec![[false, false]; nl];
    let mut ever_armed = vec![[false, false]; nl];

    macro_rules! gone {
        ($e:expr) => {
            $e.map_err(|m: String| match crate::runner::recorded_panic() {
                Some(v) => v,
                None => Violation::new("actor-stopped/live", format!("{m} (its run loop ended with an error)")),
            })?
        };
    }
    macro_rules! send {
        ($node:expr, $msg:expr) => {
            nodes[$node].tx.send($msg).await.map_err(|_| match crate::runner::recorded_panic() {
                Some(v) => v,
                None => Violation::new("actor-stopped/live", "live actor inbox closed".to_string()),
            })?
        };
    }

    // collect new dials, check the safety oracles, update epochs
    macro_rules! after_step {
        ($what:expr) => {{
            barrier().await;
            cx.sim_ms += 1;
            let fresh: Vec<_> = std::mem::take(&mut net.lock().unwrap().new_dials);
            let mut new_by: Vec<[Vec<SyncReason>; 2]> = (0..nl).map(|_| [Vec::new(), Vec::new()]).collect();
            for (from, dns, peer, reason, resolve) in fresh {
                let Some(l) = lanes.iter().position(|l| l.ns == dns && ((l.n[0] == from && nodes[l.n[1]].id == peer) || (l.n[1] == from && nodes[l.n[0]].id == peer))) else {
                    return Err(Violation::new("dial/wrong-target", format!("node {from} dialed an unexpected peer or document")));
                };
                let side = if lanes[l].n[0] == from { 0 } else { 1 };
                let to = lanes[l].n[1 - side];
                new_by[l][side].push(reason);
                cx.ev("dial", format!("L{l} n{from}->n{to} {reason:?}"));
                dials.push(Dial { id: dials.len(), lane: l, from, to, reason, resolve: Some(resolve), delivered: false, outcome: None, accept_fin: None, dial_done: false, accept_done: false, born_step: step_no, peer_open: vec![], callee_accepting: false, callee_synced: true });
            }
            // record answers
            for (id, o) in outcomes.borrow_mut().drain(..) {
                cx.ev("answer", format!("d{id} {o:?}"));
                if matches!(o, AcceptOutcome::Reject(AbortReason::AlreadySyncing)) {
                    cx.probe("declined_already_syncing");
                }
                dials[id].outcome = Some(o);
            }
            let mut snaps: Vec<[Option<VerifPeerState>; 2]> = Vec::new();
            for l in 0..nl {
                let s0 = gone!(snapshot(&nodes[lanes[l].n[0]], lanes[l].ns, nodes[lanes[l].n[1]].id).await);
                let s1 = gone!(snapshot(&nodes[lanes[l].n[1]], lanes[l].ns, nodes[lanes[l].n[0]].id).await);
                snaps.push([s0, s1]);
            }
            let view: Vec<_> = snaps.iter().map(|s| (s[0].as_ref().map(|s| (&s.running, s.resync_requested)), s[1].as_ref().map(|s| (&s.running, s.resync_requested)))).collect();
            cx.ev("state", format!("{view:?}"));
            cx.state(crate::rng::fnv(format!("{:?}{}", snaps, dials.iter().filter(|d| !d.dial_done).count()).as_bytes()));
            for l in 0..nl {
                // two sessions in progress at once?
                let in_progress: Vec<usize> = dials.iter().filter(|d| d.lane == l && matches!(d.outcome, Some(AcceptOutcome::Allow)) && !d.dial_done && !d.accept_done).map(|d| d.id).collect();
                if in_progress.len() > 1 {
                    return Err(Violation::new("two-sessions/overlap", format!("after {}: sessions of dials {:?} (same document, same pair of nodes) are both in progress (neither end of either has finished)", $what, in_progress)));
                }
                if in_progress.len() == 1 && dials.iter().any(|d| d.lane != l && matches!(d.outcome, Some(AcceptOutcome::Allow)) && !d.dial_done && !d.accept_done) {
                    cx.probe("sessions_in_two_lanes_at_once");
                }
                // resync bookkeeping
                for x in 0..2 {
                    let node = lanes[l].n[x];
                    let now_running = running(&snaps[l][x]).is_some();
                    let resyncs = new_by[l][x].iter().filter(|r| **r == SyncReason::Resync).count();
                    if was_running[l][x] && (!now_running || !new_by[l][x].is_empty()) {
                        // the session that was running on x has finished in this step
                        if let Some(e) = resync_armed[l][x].take() {
                            if e == epoch[l][x] {
                                if resyncs != 1 {
                                    return Err(Violation::new("resync-count/missing", format!("after {}: node {node} was told about news while a session was running; when that session finished {resyncs} follow-up dials were made (expected exactly one)", $what)));
                                }
                                cx.probe("resync_after_refused_report");
                            }
                        } else if resyncs > 0 && !ever_armed[l][x] {
                            return Err(Violation::new("resync-count/spurious", format!("after {}: node {node} made a follow-up dial although no news report was refused during the session", $what)));
                        }
                    }
                    if resyncs > 1 {
                        return Err(Violation::new("resync-count/many", format!("after {}: node {node} made {resyncs} follow-up dials at once", $what)));
                    }
                    if !new_by[l][x].is_empty() {
                        epoch[l][x] += 1;
                    }
                    was_running[l][x] = now_running;
                }
            }
            step_no += 1;
            snaps
        }};
    }

    let _ = after_step!("start");

    let deliver = |d: &mut Dial, callee: &CNode, caller_id: PublicKey, target_ns: NamespaceId| {
        let (fin_tx, fin_rx) = oneshot::channel::<AcceptRes>();
        let inbox = callee.tx.clone();
        let id = d.id;
        // the real accept path: ask the live actor, then either decline or run until the driver finishes it
        let (otx, orx) = std::sync::mpsc::channel::<AcceptOutcome>();
        let fut = Box::pin(async move {
            let (reply, rx) = oneshot::channel();
            inbox.send(ToLiveActor::AcceptSyncRequest { namespace: target_ns, peer: caller_id, reply }).await.ok();
            let outcome = rx.await.unwrap_or(AcceptOutcome::Reject(AbortReason::InternalServerError));
            otx.send(outcome.clone()).ok();
            match outcome {
                AcceptOutcome::Reject(reason) => Err(AcceptError::Abort { peer: caller_id, namespace: target_ns, reason }),
                AcceptOutcome::Allow => fin_rx.await.unwrap_or_else(|_| Err(AcceptError::Connect { error: anyhow::anyhow!("accept side dropped") })),
            }
        });
        d.delivered = true;
        d.accept_fin = Some(fin_tx);
        (ToLiveActor::VerifAccept { fut: Mutex::new(Some(fut)) }, orx, id)
    };
    let mut answer_rx: Vec<(usize, std::sync::mpsc::Receiver<AcceptOutcome>)> = Vec::new();

    macro_rules! poll_answers {
        () => {{
            let mut keep = Vec::new();
            for (id, rx) in answer_rx.drain(..) {
                match rx.try_recv() {
                    Ok(o) => outcomes.borrow_mut().push((id, o)),
                    Err(std::sync::mpsc::TryRecvError::Empty) => keep.push((id, rx)),
                    Err(_) => {}
                }
            }
            answer_rx = keep;
        }};
    }

    let mut all_steps: Vec<CStep> = plan.steps.clone();
    let mut cleanup_round = 0u32;
    let mut idx = 0usize;
    let mut rejoined_all = false;
    loop {
        if idx >= all_steps.len() && !rejoined_all {
            // every node syncs every document again before leftovers are resolved and readiness is
            // probed (starting to sync dials the peers remembered as useful: those dials are
            // resolved like any other)
            rejoined_all = true;
            let mut any = false;
            for node in 0..nn {
                for d in 0..ndocs {
                    if !syncing[node][d] {
                        let (reply, rx) = oneshot::channel();
                        send!(node, ToLiveActor::StartSync { namespace: synced[d].id(), peers: vec![], reply });
                        let r = rx.await.map_err(|_| Violation::new("actor-stopped/live", "no answer to a start-sync request".to_string()))?;
                        if let Err(e) = r {
                            return Err(harness(format!("rejoin failed: {e:#}")));
                        }
                        syncing[node][d] = true;
                        any = true;
                    }
                }
            }
            if any {
                let _ = after_step!("rejoin before cleanup");
            }
            continue;
        }
        if idx >= all_steps.len() {
            // cleanup: resolve every leftover, one per iteration, until nothing is in flight
            let bit = |k: usize| (plan.cleanup >> (k % 16)) & 1 == 1;
            let next = if let Some(d) = dials.iter().position(|d| !d.delivered && !d.dial_done) {
                Some(CStep::LoseRequest { l: dials[d].lane as u8, d: 0 })
            } else if let Some(d) = dials.iter().position(|d| matches!(d.outcome, Some(AcceptOutcome::Reject(_))) && !d.dial_done) {
                Some(CStep::DeliverAbort { l: dials[d].lane as u8, d: 0 })
            } else if let Some(d) = dials.iter().position(|d| matches!(d.outcome, Some(AcceptOutcome::Allow)) && !d.accept_done) {
                Some(CStep::FinishAcceptSide { l: dials[d].lane as u8, s: 0, ok: bit(d) })
            } else if let Some(d) = dials.iter().position(|d| matches!(d.outcome, Some(AcceptOutcome::Allow)) && !d.dial_done) {
                Some(CStep::FinishDialSide { l: dials[d].lane as u8, s: 0, ok: bit(d + 7) })
            } else {
                None
            };
            match next {
                None => break,
                Some(s) => {
                    cleanup_round += 1;
                    if cleanup_round > 64 + 32 * nl as u32 {
                        return Err(Violation::new("progress/never-quiescent", "resolving every outstanding request and session keeps producing new dials".to_string()));
                    }
                    all_steps.push(s);
                }
            }
        }
        let step = all_steps[idx].clone();
        idx += 1;
        let in_cleanup = idx > plan.steps.len();
        match &step {
            CStep::NeighborUp { l, x } => {
                let (l, x) = (*l as usize % nl, *x as usize % 2);
                send!(lanes[l].n[x], ToLiveActor::NeighborUp { namespace: lanes[l].ns, peer: nodes[lanes[l].n[1 - x]].id });
            }
            CStep::Leave { l, x } | CStep::Rejoin { l, x } => {
                let (l, x) = (*l as usize % nl, *x as usize % 2);
                let node = lanes[l].n[x];
                let d = doc_of(l);
                let leave = matches!(step, CStep::Leave { .. });
                if leave == !syncing[node][d] {
                    continue;
                }
                // leaving drops the per-peer state of the document; it is only carried out while no
                // request, reply or session of this node and document is in flight
                let busy = dials.iter().any(|e| lanes[e.lane].ns == lanes[l].ns && (e.from == node || e.to == node) && (!e.dial_done || (matches!(e.outcome, Some(AcceptOutcome::Allow)) && !e.accept_done) || (!e.delivered)));
                if leave && busy {
                    continue;
                }
                let (reply, rx) = oneshot::channel();
                if leave {
                    send!(node, ToLiveActor::Leave { namespace: lanes[l].ns, kill_subscribers: false, reply });
                } else {
                    send!(node, ToLiveActor::StartSync { namespace: lanes[l].ns, peers: vec![], reply });
                }
                let r = rx.await.map_err(|_| Violation::new("actor-stopped/live", "no answer to a leave / start-sync request".to_string()))?;
                if let Err(e) = r {
                    return Err(harness(format!("leave / rejoin failed: {e:#}")));
                }
                syncing[node][d] = !leave;
                for (li, lane) in lanes.iter().enumerate() {
                    if lane.ns == lanes[l].ns {
                        for side in 0..2 {
                            if lane.n[side] == node {
                                resync_armed[li][side] = None;
                                was_running[li][side] = false;
                            }
                        }
                    }
                }
                cx.probe(if leave { "left_a_document" } else { "rejoined_a_document" });
                cx.ev(if leave { "leave" } else { "rejoin" }, format!("n{node} d{d}"));
            }
            CStep::StartSyncUnknown { l, x } => {
                let (l, x) = (*l as usize % nl, *x as usize % 2);
                let (reply, rx) = oneshot::channel();
                send!(lanes[l].n[x], ToLiveActor::StartSync { namespace: unknown_ns, peers: vec![], reply });
                let r = rx.await.map_err(|_| Violation::new("actor-stopped/live", "no answer to a start-sync request".to_string()))?;
                cx.ev("start-sync-unknown", format!("n{} ok={}", lanes[l].n[x], r.is_ok()));
                cx.probe("start_sync_for_a_document_the_store_does_not_hold");
            }
            CStep::NeighborDown { l, x } => {
                let (l, x) = (*l as usize % nl, *x as usize % 2);
                send!(lanes[l].n[x], ToLiveActor::NeighborDown { namespace: lanes[l].ns, peer: nodes[lanes[l].n[1 - x]].id });
                cx.probe("neighbour_down_event");
            }
            CStep::SyncReport { l, x, news } => {
                let (l, x) = (*l as usize % nl, *x as usize % 2);
                let (me, other) = (lanes[l].n[x], lanes[l].n[1 - x]);
                let snap = gone!(snapshot(&nodes[me], lanes[l].ns, nodes[other].id).await);
                if *news && running(&snap).is_some() {
                    resync_armed[l][x] = Some(epoch[l][x]);
                    ever_armed[l][x] = true;
                }
                send!(me, ToLiveActor::IncomingSyncReport { from: nodes[other].id, report: sync_report(lanes[l].ns, *news) });
            }
            CStep::DeliverRequest { l, d } => {
                let l = *l as usize % nl;
                let cand: Vec<usize> = dials.iter().filter(|d| d.lane == l && !d.delivered && !d.dial_done).map(|d| d.id).collect();
                if cand.is_empty() {
                    continue;
                }
                let id = cand[*d as usize % cand.len()];
                let (from, to) = (dials[id].from, dials[id].to);
                dials[id].peer_open = dials.iter().filter(|e| e.lane == l && e.from != from && !e.dial_done).map(|e| e.id).collect();
                dials[id].callee_accepting = dials.iter().any(|e| e.lane == l && e.from == from && matches!(e.outcome, Some(AcceptOutcome::Allow)) && !e.accept_done);
                dials[id].callee_synced = syncing[to][doc_of(l)];
                let (msg, orx, id2) = deliver(&mut dials[id], &nodes[to], nodes[from].id, lanes[l].ns);
                answer_rx.push((id2, orx));
                send!(to, msg);
                // the callee answers within this step
                barrier().await;
                poll_answers!();
                if !syncing[to][doc_of(l)] {
                    cx.probe("request_for_a_document_the_callee_has_left");
                    if let Some((_, o)) = outcomes.borrow().last() {
                        if !matches!(o, AcceptOutcome::Reject(AbortReason::NotFound)) {
                            return Err(Violation::new("notfound/answer", format!("a request for a document the callee has stopped syncing was answered with {o:?}")));
                        }
                    }
                }
                // a callee that allows starts a new session epoch
                if let Some((_, AcceptOutcome::Allow)) = outcomes.borrow().last() {
                    let side = if lanes[l].n[0] == to { 0 } else { 1 };
                    epoch[l][side] += 1;
                }
            }
            CStep::LoseRequest { l, d } => {
                let l = *l as usize % nl;
                let cand: Vec<usize> = dials.iter().filter(|d| d.lane == l && !d.delivered && !d.dial_done).map(|d| d.id).collect();
                if cand.is_empty() {
                    continue;
                }
                let id = if in_cleanup { cand[0] } else { cand[*d as usize % cand.len()] };
                dials[id].resolve.take().unwrap().send(Err(ConnectError::Connect { error: anyhow::anyhow!("request lost") })).ok();
                dials[id].dial_done = true;
                dials[id].delivered = true;
                cx.fault("request_lost");
            }
            CStep::BrokenRequest { l, d } => {
                let l = *l as usize % nl;
                let cand: Vec<usize> = dials.iter().filter(|d| d.lane == l && !d.delivered && !d.dial_done).map(|d| d.id).collect();
                if cand.is_empty() {
                    continue;
                }
                let id = cand[*d as usize % cand.len()];
                let to = dials[id].to;
                let fut = Box::pin(async move { Err(AcceptError::Connect { error: anyhow::anyhow!("stream broke before the request was read") }) });
                send!(to, ToLiveActor::VerifAccept { fut: Mutex::new(Some(fut)) });
                dials[id].resolve.take().unwrap().send(Err(ConnectError::Sync { error: anyhow::anyhow!("stream broke") })).ok();
                dials[id].dial_done = true;
                dials[id].delivered = true;
                cx.fault("request_broken");
            }
            CStep::DeliverAbort { l, d } | CStep::LoseAbort { l, d } => {
                let l = *l as usize % nl;
                let cand: Vec<usize> = dials.iter().filter(|d| d.lane == l && matches!(d.outcome, Some(AcceptOutcome::Reject(_))) && !d.dial_done).map(|d| d.id).collect();
                if cand.is_empty() {
                    continue;
                }
                let id = if in_cleanup { cand[0] } else { cand[*d as usize % cand.len()] };
                let Some(AcceptOutcome::Reject(reason)) = dials[id].outcome.clone() else { unreachable!() };
                let res = if matches!(step, CStep::DeliverAbort { .. }) {
                    Err(ConnectError::RemoteAbort(reason))
                } else {
                    cx.fault("decline_lost");
                    Err(ConnectError::Sync { error: anyhow::anyhow!("stream died before the abort arrived") })
                };
                dials[id].resolve.take().unwrap().send(res).ok();
                dials[id].dial_done = true;
                dials[id].accept_done = true;
            }
            CStep::FinishDialSide { l, s, ok } => {
                let l = *l as usize % nl;
                let cand: Vec<usize> = dials.iter().filter(|d| d.lane == l && matches!(d.outcome, Some(AcceptOutcome::Allow)) && !d.dial_done).map(|d| d.id).collect();
                if cand.is_empty() {
                    continue;
                }
                let id = if in_cleanup { cand[0] } else { cand[*s as usize % cand.len()] };
                let to = dials[id].to;
                let res = if *ok { Ok(finished(lanes[l].ns, nodes[to].id)) } else { cx.fault("dial_side_failed"); Err(ConnectError::Sync { error: anyhow::anyhow!("session failed") }) };
                dials[id].resolve.take().unwrap().send(res).ok();
                dials[id].dial_done = true;
            }
            CStep::FinishAcceptSide { l, s, ok } => {
                let l = *l as usize % nl;
                let cand: Vec<usize> = dials.iter().filter(|d| d.lane == l && matches!(d.outcome, Some(AcceptOutcome::Allow)) && !d.accept_done).map(|d| d.id).collect();
                if cand.is_empty() {
                    continue;
                }
                let id = if in_cleanup { cand[0] } else { cand[*s as usize % cand.len()] };
                let from = dials[id].from;
                let res = if *ok { Ok(finished(lanes[l].ns, nodes[from].id)) } else { cx.fault("accept_side_failed"); Err(AcceptError::Sync { peer: nodes[from].id, namespace: Some(lanes[l].ns), error: anyhow::anyhow!("session failed") }) };
                if let Some(f) = dials[id].accept_fin.take() {
                    f.send(res).ok();
                }
                dials[id].accept_done = true;
            }
            CStep::UnknownDocRequest { l, x, held } => {
                let (l, x) = (*l as usize % nl, *x as usize % 2);
                let (me, other) = (lanes[l].n[x], lanes[l].n[1 - x]);
                let (reply, rx) = oneshot::channel();
                send!(me, ToLiveActor::AcceptSyncRequest { namespace: if *held { held_ns } else { unknown_ns }, peer: nodes[other].id, reply });
                let o = rx.await.map_err(|_| Violation::new("actor-stopped/live", "no answer to a sync request".to_string()))?;
                cx.probe(if *held { "request_for_held_unsynced_document" } else { "request_for_unknown_document" });
                if !matches!(o, AcceptOutcome::Reject(AbortReason::NotFound)) {
                    return Err(Violation::new("notfound/answer", format!("a request for a document that is not being synced was answered with {o:?}")));
                }
            }
        }
        poll_answers!();
        let _snaps = after_step!(format!("step {idx} {step:?}"));
        poll_answers!();
        // simultaneous dial whose two requests were both delivered while both dials were unresolved
        for a in 0..dials.len() {
            for b in (a + 1)..dials.len() {
                let (da, db) = (&dials[a], &dials[b]);
                // each request was delivered while the other node's dial was its only unresolved one
                if da.lane == db.lane && da.from != db.from && da.outcome.is_some() && db.outcome.is_some() && da.peer_open == vec![db.id] && db.peer_open == vec![da.id] && !da.callee_accepting && !db.callee_accepting && da.callee_synced && db.callee_synced {
                    let allows = [da, db].iter().filter(|d| matches!(d.outcome, Some(AcceptOutcome::Allow))).count();
                    if allows != 1 {
                        return Err(Violation::new(if allows == 0 { "tiebreak/none-accepted" } else { "tiebreak/both-accepted" }, format!("nodes dialed each other simultaneously (dials {a} and {b}); {allows} of the two requests were accepted")));
                    }
                    if allows == 1 {
                        cx.probe("simultaneous_dial_resolved");
                    }
                }
            }
        }
    }

    // ---- quiescence: nothing is in flight -----------------------------------------------------
    let snaps = after_step!("quiescence");
    for l in 0..nl {
        for x in 0..2 {
            if let Some(o) = running(&snaps[l][x]) {
                let hist: Vec<String> = dials.iter().map(|d| format!("d{}:L{}:n{}:{:?}:{:?}", d.id, d.lane, d.from, d.reason, d.outcome)).collect();
                let (me, other) = (lanes[l].n[x], lanes[l].n[1 - x]);
                let who = if nodes[me].id.as_bytes() > nodes[other].id.as_bytes() { "bigger-id" } else { "smaller-id" };
                return Err(Violation::new(format!("progress/stuck-{}", match o { Origin::Connect(_) => "dialing", Origin::Accept => "accepting" }), format!("nothing is in flight, but the {who} node {me} still marks the pair as busy ({o:?}); history {hist:?}")));
            }
        }
    }
    // behavioural probe: each node can dial ...
    for l in 0..nl {
        for x in 0..2 {
            let (me, other) = (lanes[l].n[x], lanes[l].n[1 - x]);
            send!(me, ToLiveActor::NeighborUp { namespace: lanes[l].ns, peer: nodes[other].id });
            barrier().await;
            let fresh: Vec<_> = std::mem::take(&mut net.lock().unwrap().new_dials);
            let right = fresh.iter().filter(|(f, n, p, _, _)| *f == me && *n == lanes[l].ns && *p == nodes[other].id).count();
            if fresh.len() != 1 || right != 1 {
                return Err(Violation::new("progress/cannot-dial", format!("at quiescence a new neighbour event on node {me} produced {} dials ({right} to the right peer and document)", fresh.len())));
            }
            for (_f, _n, _p, _r, resolve) in fresh {
                resolve.send(Err(ConnectError::Connect { error: anyhow::anyhow!("probe") })).ok();
            }
            barrier().await;
        }
    }
    // ... and accept
    for l in 0..nl {
        for x in 0..2 {
            let (me, other) = (lanes[l].n[x], lanes[l].n[1 - x]);
            let (reply, rx) = oneshot::channel();
            send!(me, ToLiveActor::AcceptSyncRequest { namespace: lanes[l].ns, peer: nodes[other].id, reply });
            let o = rx.await.map_err(|_| Violation::new("actor-stopped/live", "no answer".to_string()))?;
            if !matches!(o, AcceptOutcome::Allow) {
                return Err(Violation::new("progress/cannot-accept", format!("at quiescence node {me} declines a fresh request: {o:?}")));
            }
        }
    }
    Ok(())
}
