//! Scenario `actor` (C14): 1-3 clients pipeline requests into one real store actor (run as a
//! local task on the paused runtime); every reply is compared with a sequential model applied in
//! send order (handle counting, sync gate, FIFO visibility, stream snapshots, shutdown).
//! Faults: reply receivers dropped before the actor answers, streams dropped half-way, virtual
//! time advances (flush timer) between any two batches, shutdown with requests still queued.

use std::{
    collections::BTreeMap,
    future::Future,
    pin::Pin,
    task::{Context, Poll, RawWaker, RawWakerVTable, Waker},
    time::Duration,
};

use iroh_docs::{
    actor::{OpenOpts, OpenState, SyncHandle},
    api::RpcResult,
    store::Query,
    Capability, ContentStatus, Event, SignedEntry, SyncOutcome,
};
use serde::{Deserialize, Serialize};

use crate::{
    model::RefDoc,
    msg::MMessage,
    node::Node,
    rng::Rng,
    runner::{barrier, block_on_sim, shrink_vec, Cx, Res, Scenario, Tier, Violation},
    sut::{compare, dump, harness, Backend, Sut},
    scen::docs::{gen_policy, PolicySpec},
    world::{content, gen_ent, hexbytes, world, Ent, GenCfg},
};

pub struct ActorScen {
    /// C07: histories biased to capability imports while documents are open; only the replies to
    /// writes, deletions, secret export and imports are judged
    pub cap_focus: bool,
    /// C16: histories biased to open / close / drop / re-import; only the replies that show
    /// whether a removal was refused or went through are judged
    pub removal_focus: bool,
    /// C06: disk-backed histories biased to writes and flushes that all end in a crash; only the
    /// reopened crash image is judged
    pub crash_focus: bool,
}

#[derive(Serialize, Deserialize, Clone, Debug)]
pub enum Req {
    Open { d: u8, sync: bool, sub: bool },
    Close { d: u8 },
    SetSync { d: u8, on: bool },
    InsertLocal { d: u8, a: u8, #[serde(with = "hexbytes")] k: Vec<u8>, c: u8 },
    DeletePrefix { d: u8, a: u8, #[serde(with = "hexbytes")] k: Vec<u8> },
    InsertRemote { e: Ent },
    SyncInitial { d: u8 },
    SyncProcess { d: u8, es: Vec<Ent> },
    GetExact { d: u8, a: u8, #[serde(with = "hexbytes")] k: Vec<u8> },
    GetMany { d: u8, cap: u8 },
    Subscribe { d: u8 },
    GetState { d: u8 },
    Import { d: u8, write: bool },
    ExportSecret { d: u8 },
    Drop { d: u8 },
    Flush,
    Shutdown,
    SetPolicy { d: u8, p: PolicySpec },
    GetPolicy { d: u8 },
    RegisterPeer { d: u8, peer: u8 },
    GetPeers { d: u8 },
    /// a peer's head report naming one author at one timestamp
    HasNews { d: u8, a: u8, ts: u64 },
    /// list the documents (with capability kind) or the author keys of the store
    ListDocs,
    ListAuthors,
    /// the set of content hashes the store reports for garbage-collection protection
    Hashes,
    /// author keys of the store: local writes need the author's key to be present
    DeleteAuthor { a: u8 },
    ImportAuthor { a: u8 },
    ExportAuthor { a: u8 },
}

#[derive(Serialize, Deserialize, Clone, Debug)]
pub enum AStep {
    /// send a request (it is in the actor's inbox; the actor has not run yet)
    Send { client: u8, req: Req },
    /// send a read request and drop its reply receiver before the actor answers
    SendDropReply { client: u8, req: Req },
    /// let the actor work through its inbox, then collect and check all outstanding replies
    Await,
    /// advance the wall clock of the node (entry timestamps)
    Tick { dt: u64 },
    /// advance virtual time (flush timer fires if >= 500 ms)
    Advance { ms: u64 },
    /// consume n items of the oldest open stream (or all if n == 0)
    Consume { n: u8 },
    /// drop the oldest open stream without consuming it
    DropStream,
    /// kill the process now (`settle`: after the actor has worked through its inbox); the disk
    /// keeps everything written (L1) or only what was synced (L2). Ends the run.
    Crash { l2: bool, settle: bool },
}

#[derive(Serialize, Deserialize, Clone, Debug)]
pub struct ActorPlan {
    pub seed: u64,
    pub backend: Backend,
    pub docs: u8,
    pub steps: Vec<AStep>,
    /// bit d: document d starts with a read-only capability (a later write import is an upgrade)
    #[serde(default)]
    pub read_only: u8,
}

#[derive(Clone, Default, Debug)]
struct MDoc {
    cap: Option<bool>,
    handles: usize,
    sync: bool,
    /// acknowledged subscriptions since the document was opened (their receivers are drained
    /// for the whole run and never dropped, so none of them is ever removed by a failed send)
    subs: usize,
    doc: RefDoc,
    policy: Option<PolicySpec>,
    /// most recently registered first, at most five
    peers: Vec<u8>,
}

fn noop_waker() -> Waker {
    fn clone(_: *const ()) -> RawWaker {
        RawWaker::new(std::ptr::null(), &VTABLE)
    }
    fn noop(_: *const ()) {}
    static VTABLE: RawWakerVTable = RawWakerVTable::new(clone, noop, noop, noop);
    unsafe { Waker::from_raw(RawWaker::new(std::ptr::null(), &VTABLE)) }
}

/// Poll a future exactly once: a `SyncHandle` method sends its request on the first poll.
fn poll_once<F: Future + ?Sized>(f: &mut Pin<Box<F>>) -> Poll<F::Output> {
    let w = noop_waker();
    let mut cx = Context::from_waker(&w);
    f.as_mut().poll(&mut cx)
}

#[derive(Debug)]
enum Reply {
    Unit(Result<(), String>),
    Bool(Result<bool, String>),
    Count(Result<usize, String>),
    Entry(Result<Option<SignedEntry>, String>),
    State(Result<OpenState, String>),
    Secret(Result<bool, String>),
    Msg(Result<usize, String>),
    Store(Result<iroh_docs::store::Store, String>),
    Policy(Result<Vec<u8>, String>),
    Peers(Result<Option<Vec<[u8; 32]>>, String>),
    /// (id, kind: 1 write / 2 read / 0 for authors), sorted
    List(Result<Vec<([u8; 32], u8)>, String>),
    Hashes(Result<std::collections::BTreeSet<[u8; 32]>, String>),
}

type Fut = Pin<Box<dyn Future<Output = Reply>>>;

#[derive(Debug, Clone)]
enum Expect {
    Ok,
    Err,
    Bool(bool),
    Count(usize),
    Entry(Option<Ent>),
    State { handles: usize, sync: bool, subs: usize },
    Policy(Vec<u8>),
    Peers(Option<Vec<[u8; 32]>>),
    List(Vec<([u8; 32], u8)>),
    Hashes(std::collections::BTreeSet<[u8; 32]>),
    Secret(bool),
    AnyOk,
    Store,
    /// outcome depends on something the model does not fix; only "no panic, some reply"
    Any,
}

struct Pending {
    idx: usize,
    req: Req,
    fut: Fut,
    expect: Expect,
}

struct Stream {
    idx: usize,
    rx: irpc::channel::mpsc::Receiver<RpcResult<SignedEntry>>,
    /// expected content (None = must be an error: document not open)
    expect: Option<Vec<Ent>>,
    got: Vec<SignedEntry>,
    d: u8,
    errored: bool,
}

impl Scenario for ActorScen {
    type Plan = ActorPlan;
    fn name(&self) -> String {
        if self.cap_focus { "actor-capability".into() } else if self.removal_focus { "actor-removal".into() } else if self.crash_focus { "actor-crash".into() } else { "actor".into() }
    }

    fn gen(&self, rng: &mut Rng, tier: Tier) -> ActorPlan {
        let docs = rng.range(1, 2) as u8;
        let g = GenCfg { docs, authors: 2, max_key_len: 2, ts_values: 6, marker_pct: 20, contents: 3 };
        let clients = rng.range(1, 3) as u8;
        let n = rng.urange(6, tier.pick(40, 60));
        let mut steps = Vec::new();
        let mut shut = false;
        if self.crash_focus {
            for d in 0..docs {
                steps.push(AStep::Send { client: 0, req: Req::Open { d, sync: true, sub: false } });
            }
        }
        for i in 0..n {
            let d = rng.below(docs as u64) as u8;
            let client = rng.below(clients as u64) as u8;
            let key = |rng: &mut Rng| crate::world::gen_key(rng, 2);
            let roll = if self.cap_focus {
                // imports, opens/closes, writes, deletions, secret export dominate
                *rng.pick(&[0u64, 1, 2, 6, 12, 13, 14, 15, 18, 36, 36, 36, 36, 37, 37, 20, 32, 33, 33, 38, 39])
            } else if self.removal_focus {
                *rng.pick(&[0u64, 1, 2, 3, 6, 7, 12, 13, 20, 26, 33, 34, 36, 38, 38, 38, 38, 39, 48, 48])
            } else if self.crash_focus {
                // opens, writes, deletions, remote inserts, reconciliation, reads that commit, flushes
                *rng.pick(&[0u64, 0, 1, 6, 12, 13, 14, 15, 16, 17, 18, 19, 20, 21, 24, 25, 29, 26, 38, 39, 39, 40, 42, 46, 47])
            } else {
                rng.below(50)
            };
            let req = match roll {
                0..=5 => Req::Open { d, sync: rng.chance(1, 2), sub: rng.chance(1, 4) },
                6..=9 => Req::Close { d },
                10..=11 => Req::SetSync { d, on: rng.chance(1, 2) },
                12..=17 => Req::InsertLocal { d, a: rng.below(2) as u8, k: key(rng), c: rng.range(1, 3) as u8 },
                18..=19 => Req::DeletePrefix { d, a: rng.below(2) as u8, k: key(rng) },
                20..=22 => { let mut e = gen_ent(rng, &g); e.d = d; Req::InsertRemote { e } }
                23 => Req::SyncInitial { d },
                24..=25 => Req::SyncProcess { d, es: (0..rng.urange(1, 2)).map(|_| { let mut e = gen_ent(rng, &g); e.d = d; e }).collect() },
                26..=28 => Req::GetExact { d, a: rng.below(2) as u8, k: key(rng) },
                29..=31 => Req::GetMany { d, cap: rng.range(1, 4) as u8 },
                32 => Req::Subscribe { d },
                33..=35 => Req::GetState { d },
                36 => Req::Import { d, write: rng.chance(1, 2) },
                37 => Req::ExportSecret { d },
                38 => if (rng.chance(1, 3) && !self.crash_focus) || self.removal_focus || (self.crash_focus && rng.chance(1, 8)) { Req::Drop { d } } else { Req::Flush },
                40 => Req::SetPolicy { d, p: gen_policy(rng) },
                41 => Req::GetPolicy { d },
                42 | 43 => Req::RegisterPeer { d, peer: rng.below(7) as u8 },
                44 => Req::GetPeers { d },
                45 => Req::HasNews { d, a: rng.below(3) as u8, ts: rng.range(0, 14) },
                46 => Req::ListDocs,
                47 => Req::ListAuthors,
                48 => Req::Hashes,
                49 => match rng.below(3) {
                    0 => Req::DeleteAuthor { a: rng.below(2) as u8 },
                    1 => Req::ImportAuthor { a: rng.below(2) as u8 },
                    _ => Req::ExportAuthor { a: rng.below(2) as u8 },
                },
                _ => if i > n / 2 && rng.chance(1, 3) && !self.crash_focus { Req::Shutdown } else { Req::Flush },
            };
            if matches!(req, Req::Shutdown) {
                if shut { continue; }
                shut = true;
            }
            let is_read = matches!(req, Req::GetExact { .. } | Req::GetState { .. } | Req::GetPolicy { .. } | Req::GetPeers { .. } | Req::HasNews { .. } | Req::ListDocs | Req::ListAuthors | Req::Hashes | Req::ExportAuthor { .. });
            // a caller may give up on any request (drop the reply receiver while it is still queued):
            // reads often, state-changing requests now and then - those must still take effect,
            // later replies reflect all earlier requests whether or not somebody waited for them
            let gives_up = if is_read { rng.chance(1, 5) } else { !matches!(req, Req::Shutdown | Req::GetMany { .. } | Req::Drop { .. }) && rng.chance(1, 10) };
            if gives_up {
                steps.push(AStep::SendDropReply { client, req });
            } else {
                steps.push(AStep::Send { client, req });
            }
            match rng.below(12) {
                0..=4 => steps.push(AStep::Await),
                5 => { steps.push(AStep::Await); steps.push(AStep::Tick { dt: rng.range(1, 3) }); }
                6 => { steps.push(AStep::Await); steps.push(AStep::Advance { ms: *rng.pick(&[1, 100, 499, 500, 501, 1200]) }); }
                7 => steps.push(AStep::Consume { n: rng.below(3) as u8 }),
                8 => if rng.chance(1, 3) { steps.push(AStep::DropStream) },
                _ => {}
            }
        }
        let backend = if rng.chance(1, 2) && !self.crash_focus { Backend::Mem } else { Backend::Disk };
        if backend == Backend::Disk && !self.cap_focus && !self.removal_focus && (self.crash_focus || rng.chance(1, 3)) {
            if self.crash_focus && rng.chance(1, 4) {
                // instead of a crash: an orderly shutdown, judged by what the file holds at the
                // moment the shutdown reply arrives (the handed-back store still alive)
                steps.push(AStep::Send { client: 0, req: Req::Shutdown });
                steps.push(AStep::Await);
            } else {
                if rng.chance(1, 2) {
                    steps.push(AStep::Await);
                }
                steps.push(AStep::Crash { l2: rng.chance(2, 3), settle: rng.chance(1, 2) });
            }
        } else {
            steps.push(AStep::Await);
        }
        let read_only = if self.cap_focus || rng.chance(1, 3) { rng.below(4) as u8 } else { 0 };
        ActorPlan { seed: rng.next_u64(), backend, docs, steps, read_only }
    }

    fn exec(&self, plan: &ActorPlan, cx: &mut Cx) -> Res {
        block_on_sim(plan.seed, run(plan, cx, self.cap_focus, self.removal_focus, self.crash_focus))
    }

    fn shrink(&self, plan: &ActorPlan) -> Vec<ActorPlan> {
        let mut out = Vec::new();
        for c in shrink_vec(&plan.steps) {
            let mut p = plan.clone();
            p.steps = c;
            out.push(p);
        }
        if plan.backend != Backend::Mem {
            let mut p = plan.clone();
            p.backend = Backend::Mem;
            out.push(p);
        }
        out
    }

    fn components(&self) -> (Vec<&'static str>, Vec<&'static str>) {
        (
            vec!["actor::Actor::run_async (unchanged, as a local task)", "actor::OpenReplicas (open_with, close, replica_if_syncing)", "actor::SyncHandle (all request methods, shutdown)", "sync::Replica", "store::fs", "irpc mpsc reply streams"],
            vec!["the actor's OS thread (its run loop is polled on the simulator's paused runtime)", "client tasks (requests are sent by polling the handle's futures once, in plan order)", "virtual time (flush timer)", "wall clock", "disk (SimDisk / in-memory)"],
        )
    }

    fn rule(&self) -> String {
        "A run is 6-60 requests from 1-3 clients over 1-2 documents (open ±sync ±subscribe, close, set-sync, insert, delete, remote insert, reconciliation, get-exact, get-many streams with capacity 1-4 consumed late, subscribe, get-state, import, export, drop, flush, set/get download policy, register/list useful peers, has-news, shutdown), pipelined in plan-chosen batches; faults: reply receiver dropped before the answer, stream dropped half-way, virtual-time advances across the 500 ms flush timer, shutdown with requests queued behind it; a third of the disk-backed runs end in a crash (all writes / synced writes only survive), after which the reopened image must show the state after some request not older than the last acknowledged flush. Non-trivial: a fault fired or a gate (not open / sync off / read-only) was exercised.".into()
    }
}

fn e2s<T, E: std::fmt::Display>(r: Result<T, E>) -> Result<T, String> {
    r.map_err(|e| format!("{e:#}"))
}

fn submit(h: &SyncHandle, req: &Req, streams: &mut Vec<Stream>, idx: usize, expect_stream: Option<Vec<Ent>>) -> Option<Fut> {
    let w = world();
    let h = h.clone();
    let fut: Fut = match req.clone() {
        Req::Open { d, sync, sub } => {
            let mut opts = OpenOpts::default();
            if sync {
                opts = opts.sync();
            }
            if sub {
                let (tx, rx) = async_channel::bounded::<Event>(256);
                // keep draining so that inserts never block on this subscriber
                tokio::task::spawn_local(async move { while rx.recv().await.is_ok() {} });
                opts = opts.subscribe(tx);
            }
            Box::pin(async move { Reply::Unit(e2s(h.open(w.doc_id(d), opts).await)) })
        }
        Req::Close { d } => Box::pin(async move { Reply::Bool(e2s(h.close(w.doc_id(d)).await)) }),
        Req::SetSync { d, on } => Box::pin(async move { Reply::Unit(e2s(h.set_sync(w.doc_id(d), on).await)) }),
        Req::InsertLocal { d, a, k, c } => {
            let (hash, len) = content(c);
            Box::pin(async move { Reply::Unit(e2s(h.insert_local(w.doc_id(d), w.author_id(a), k.into(), hash, len).await)) })
        }
        Req::DeletePrefix { d, a, k } => Box::pin(async move { Reply::Count(e2s(h.delete_prefix(w.doc_id(d), w.author_id(a), k.into()).await)) }),
        Req::InsertRemote { e } => Box::pin(async move { Reply::Unit(e2s(h.insert_remote(w.doc_id(e.d), e.signed(), [3u8; 32], ContentStatus::Missing).await)) }),
        Req::SyncInitial { d } => Box::pin(async move { Reply::Msg(e2s(h.sync_initial_message(w.doc_id(d)).await).map(|_| 0)) }),
        Req::SyncProcess { d, es } => {
            let msg = MMessage::carrying(es.iter().map(|e| e.signed()).collect()).to_real();
            Box::pin(async move { Reply::Msg(e2s(h.sync_process_message(w.doc_id(d), msg, [3u8; 32], SyncOutcome::default()).await).map(|(_, o)| o.num_recv)) })
        }
        Req::GetExact { d, a, k } => Box::pin(async move { Reply::Entry(e2s(h.get_exact(w.doc_id(d), w.author_id(a), k.into(), true).await)) }),
        Req::GetMany { d, cap } => {
            let (tx, rx) = irpc::channel::mpsc::channel::<RpcResult<SignedEntry>>(cap.max(1) as usize);
            streams.push(Stream { idx, rx, expect: expect_stream, got: vec![], d, errored: false });
            Box::pin(async move { Reply::Unit(e2s(h.get_many(w.doc_id(d), Query::all().include_empty().build(), tx).await)) })
        }
        Req::Subscribe { d } => {
            let (tx, rx) = async_channel::bounded::<Event>(256);
            tokio::task::spawn_local(async move { while rx.recv().await.is_ok() {} });
            Box::pin(async move { Reply::Unit(e2s(h.subscribe(w.doc_id(d), tx).await)) })
        }
        Req::GetState { d } => Box::pin(async move { Reply::State(e2s(h.get_state(w.doc_id(d)).await)) }),
        Req::Import { d, write } => {
            let cap = if write { Capability::Write(w.docs[d as usize].clone()) } else { Capability::Read(w.doc_id(d)) };
            Box::pin(async move { Reply::Unit(e2s(h.import_namespace(cap).await).map(|_| ())) })
        }
        Req::ExportSecret { d } => Box::pin(async move { Reply::Secret(e2s(h.export_secret_key(w.doc_id(d)).await).map(|s| s.id() == w.doc_id(d))) }),
        Req::Drop { d } => Box::pin(async move { Reply::Unit(e2s(h.drop_replica(w.doc_id(d)).await)) }),
        Req::Flush => Box::pin(async move { Reply::Unit(e2s(h.flush_store().await)) }),
        Req::Shutdown => Box::pin(async move { Reply::Store(e2s(h.shutdown().await)) }),
        Req::SetPolicy { d, p } => {
            let real = p.real();
            Box::pin(async move { Reply::Unit(e2s(h.set_download_policy(w.doc_id(d), real).await)) })
        }
        Req::GetPolicy { d } => Box::pin(async move { Reply::Policy(e2s(h.get_download_policy(w.doc_id(d)).await).map(|p| postcard::to_stdvec(&p).unwrap_or_default())) }),
        Req::RegisterPeer { d, peer } => Box::pin(async move { Reply::Unit(e2s(h.register_useful_peer(w.doc_id(d), w.peers[peer as usize]).await)) }),
        Req::GetPeers { d } => Box::pin(async move { Reply::Peers(e2s(h.get_sync_peers(w.doc_id(d)).await)) }),
        Req::DeleteAuthor { a } => Box::pin(async move { Reply::Unit(e2s(h.delete_author(w.author_id(a % 2)).await)) }),
        Req::ImportAuthor { a } => Box::pin(async move { Reply::Unit(e2s(h.import_author(w.authors[a as usize % 2].clone()).await).map(|_| ())) }),
        Req::ExportAuthor { a } => Box::pin(async move { Reply::Bool(e2s(h.export_author(w.author_id(a % 2)).await).map(|o| o.is_some())) }),
        Req::Hashes => Box::pin(async move {
            match h.content_hashes().await {
                Err(e) => Reply::Hashes(Err(format!("{e:#}"))),
                Ok(it) => {
                    let mut out = std::collections::BTreeSet::new();
                    for r in it {
                        match r {
                            Ok(hash) => {
                                out.insert(*hash.as_bytes());
                            }
                            Err(e) => return Reply::Hashes(Err(format!("{e:#}"))),
                        }
                    }
                    Reply::Hashes(Ok(out))
                }
            }
        }),
        Req::ListDocs => Box::pin(async move {
            let (tx, mut rx) = irpc::channel::mpsc::channel::<RpcResult<iroh_docs::api::protocol::ListResponse>>(64);
            if let Err(e) = h.list_replicas(tx).await {
                return Reply::List(Err(format!("{e:#}")));
            }
            let mut out = Vec::new();
            loop {
                match rx.recv().await {
                    Ok(Some(Ok(r))) => out.push((r.id.to_bytes(), match r.capability { iroh_docs::CapabilityKind::Write => 1u8, iroh_docs::CapabilityKind::Read => 2 })),
                    Ok(Some(Err(e))) => return Reply::List(Err(format!("{e:?}"))),
                    Ok(None) | Err(_) => break,
                }
            }
            out.sort();
            Reply::List(Ok(out))
        }),
        Req::ListAuthors => Box::pin(async move {
            let (tx, mut rx) = irpc::channel::mpsc::channel::<RpcResult<iroh_docs::api::protocol::AuthorListResponse>>(64);
            if let Err(e) = h.list_authors(tx).await {
                return Reply::List(Err(format!("{e:#}")));
            }
            let mut out = Vec::new();
            loop {
                match rx.recv().await {
                    Ok(Some(Ok(r))) => out.push((r.author_id.to_bytes(), 0u8)),
                    Ok(Some(Err(e))) => return Reply::List(Err(format!("{e:?}"))),
                    Ok(None) | Err(_) => break,
                }
            }
            out.sort();
            Reply::List(Ok(out))
        }),
        Req::HasNews { d, a, ts } => {
            let mut heads = iroh_docs::AuthorHeads::default();
            heads.insert(w.author_id(a), ts);
            Box::pin(async move { Reply::Bool(e2s(h.has_news_for_us(w.doc_id(d), heads).await).map(|n| n.is_some())) })
        }
    };
    Some(fut)
}

/// Apply a request to the sequential model and say what the reply must be.
fn model_apply(m: &mut [MDoc], authors: &mut [bool; 2], req: &Req, clock: u64, alive: &mut bool, stream_expect: &mut Option<Vec<Ent>>, cx: &mut Cx) -> Expect {
    if !*alive {
        return Expect::Err;
    }
    // a local write needs the key of its author
    if let Req::InsertLocal { a, .. } | Req::DeletePrefix { a, .. } = req {
        if !authors[*a as usize % 2] {
            cx.probe("local_write_without_author_key");
            return Expect::Err;
        }
    }
    let open = |d: &MDoc| d.handles > 0;
    match req {
        Req::Open { d, sync, sub } => {
            let dm = &mut m[*d as usize];
            if dm.cap.is_none() {
                cx.probe("open_missing_document");
                return Expect::Err;
            }
            dm.handles += 1;
            dm.sync = dm.sync || *sync;
            if *sub {
                dm.subs += 1;
            }
            Expect::Ok
        }
        Req::Close { d } => {
            let dm = &mut m[*d as usize];
            if dm.handles == 0 {
                cx.probe("close_not_open");
                return Expect::Bool(true);
            }
            dm.handles -= 1;
            if dm.handles == 0 {
                dm.sync = false;
                dm.subs = 0;
                Expect::Bool(true)
            } else {
                Expect::Bool(false)
            }
        }
        Req::SetSync { d, on } => {
            let dm = &mut m[*d as usize];
            if !open(dm) {
                cx.probe("gate_not_open");
                return Expect::Err;
            }
            dm.sync = *on;
            Expect::Ok
        }
        Req::InsertLocal { d, a, k, c } => {
            let dm = &mut m[*d as usize];
            if !open(dm) {
                cx.probe("gate_not_open");
                return Expect::Err;
            }
            if dm.cap != Some(true) {
                cx.probe("gate_read_only");
                return Expect::Err;
            }
            let e = Ent { d: *d, a: *a, k: k.clone(), ts: clock, c: *c };
            match dm.doc.offer(&e) {
                Some(_) => Expect::Ok,
                None => Expect::Err,
            }
        }
        Req::DeletePrefix { d, a, k } => {
            let dm = &mut m[*d as usize];
            if !open(dm) {
                cx.probe("gate_not_open");
                return Expect::Err;
            }
            if dm.cap != Some(true) {
                cx.probe("gate_read_only");
                return Expect::Err;
            }
            let e = Ent { d: *d, a: *a, k: k.clone(), ts: clock, c: 0 };
            match dm.doc.offer(&e) {
                Some(n) => Expect::Count(n),
                None => Expect::Err,
            }
        }
        Req::InsertRemote { e } => {
            let dm = &mut m[e.d as usize];
            if !open(dm) {
                cx.probe("gate_not_open");
                return Expect::Err;
            }
            if !dm.sync {
                cx.probe("gate_sync_off");
                return Expect::Err;
            }
            match dm.doc.offer(e) {
                Some(_) => Expect::Ok,
                None => Expect::Err,
            }
        }
        Req::SyncInitial { d } => {
            let dm = &m[*d as usize];
            if !open(dm) {
                cx.probe("gate_not_open");
                return Expect::Err;
            }
            if !dm.sync {
                cx.probe("gate_sync_off");
                return Expect::Err;
            }
            Expect::AnyOk
        }
        Req::SyncProcess { d, es } => {
            let dm = &mut m[*d as usize];
            if !open(dm) {
                cx.probe("gate_not_open");
                return Expect::Err;
            }
            if !dm.sync {
                cx.probe("gate_sync_off");
                return Expect::Err;
            }
            for e in es {
                dm.doc.offer(e);
            }
            Expect::Count(es.len())
        }
        Req::GetExact { d, a, k } => {
            let dm = &m[*d as usize];
            if !open(dm) {
                cx.probe("gate_not_open");
                return Expect::Err;
            }
            Expect::Entry(dm.doc.0.get(&(*a, k.clone())).cloned())
        }
        Req::GetMany { d, .. } => {
            let dm = &m[*d as usize];
            if !open(dm) {
                cx.probe("gate_not_open");
                *stream_expect = None;
            } else {
                *stream_expect = Some(dm.doc.0.values().cloned().collect());
            }
            Expect::Ok
        }
        Req::Subscribe { d } => {
            if !open(&m[*d as usize]) {
                cx.probe("gate_not_open");
                return Expect::Err;
            }
            m[*d as usize].subs += 1;
            Expect::Ok
        }
        Req::GetState { d } => {
            let dm = &m[*d as usize];
            if !open(dm) {
                return Expect::Err;
            }
            Expect::State { handles: dm.handles, sync: dm.sync, subs: dm.subs }
        }
        Req::Import { d, write } => {
            let dm = &mut m[*d as usize];
            dm.cap = Some(dm.cap.unwrap_or(false) || *write);
            Expect::Ok
        }
        Req::ExportSecret { d } => {
            let dm = &m[*d as usize];
            if !open(dm) {
                return Expect::Err;
            }
            if dm.cap == Some(true) {
                Expect::Secret(true)
            } else {
                cx.probe("gate_read_only");
                Expect::Err
            }
        }
        Req::Drop { d } => {
            let dm = &mut m[*d as usize];
            match dm.handles {
                0 | 1 => {
                    *dm = MDoc::default();
                    Expect::Ok
                }
                _ => {
                    // the statement does not define how a refused removal affects the handle
                    // count; the generator avoids this case, and a shrunk plan that hits it is
                    // not judged
                    Expect::Any
                }
            }
        }
        Req::Flush => Expect::Ok,
        Req::Shutdown => {
            *alive = false;
            Expect::Store
        }
        // the following go to the store without the document having to be open
        Req::SetPolicy { d, p } => {
            let dm = &mut m[*d as usize];
            if dm.cap.is_none() {
                cx.probe("policy_for_missing_document");
                return Expect::Err;
            }
            dm.policy = Some(p.clone());
            Expect::Ok
        }
        Req::GetPolicy { d } => {
            let dm = &m[*d as usize];
            Expect::Policy(postcard::to_stdvec(&dm.policy.clone().map(|p| p.real()).unwrap_or_default()).unwrap_or_default())
        }
        Req::RegisterPeer { d, peer } => {
            let dm = &mut m[*d as usize];
            if dm.cap.is_none() {
                cx.probe("peer_for_missing_document");
                return Expect::Err;
            }
            dm.peers.retain(|p| p != peer);
            dm.peers.insert(0, *peer);
            dm.peers.truncate(5);
            Expect::Ok
        }
        Req::GetPeers { d } => {
            let dm = &m[*d as usize];
            if !open(dm) {
                cx.probe("gate_not_open");
                return Expect::Err;
            }
            let w = world();
            Expect::Peers(if dm.peers.is_empty() { None } else { Some(dm.peers.iter().map(|p| w.peers[*p as usize]).collect()) })
        }
        Req::Hashes => {
            let mut v = std::collections::BTreeSet::new();
            for dm in m.iter().filter(|dm| dm.cap.is_some()) {
                for e in dm.doc.0.values() {
                    v.insert(*content(e.c).0.as_bytes());
                }
            }
            Expect::Hashes(v)
        }
        Req::ListDocs => {
            let w = world();
            let mut v: Vec<([u8; 32], u8)> = m.iter().enumerate().filter_map(|(d, dm)| dm.cap.map(|wr| (w.doc_id(d as u8).to_bytes(), if wr { 1u8 } else { 2 }))).collect();
            v.sort();
            Expect::List(v)
        }
        Req::DeleteAuthor { a } => {
            authors[*a as usize % 2] = false;
            Expect::Ok
        }
        Req::ImportAuthor { a } => {
            authors[*a as usize % 2] = true;
            Expect::Ok
        }
        Req::ExportAuthor { a } => Expect::Bool(authors[*a as usize % 2]),
        Req::ListAuthors => {
            let w = world();
            let mut v: Vec<([u8; 32], u8)> = (0..2u8).filter(|a| authors[*a as usize]).map(|a| (w.author_id(a).to_bytes(), 0u8)).collect();
            v.sort();
            Expect::List(v)
        }
        Req::HasNews { d, a, ts } => {
            let dm = &m[*d as usize];
            if dm.cap.is_none() {
                return Expect::Any;
            }
            let head = dm.doc.0.values().filter(|e| e.a == *a).map(|e| e.ts).max();
            Expect::Bool(match head {
                None => true,
                Some(h) => *ts > h,
            })
        }
    }
}

fn check_reply_focus(idx: usize, req: &Req, expect: &Expect, reply: Reply, focus: (bool, bool, bool)) -> Res<Option<iroh_docs::store::Store>> {
    let (cap_focus, removal_focus, crash_focus) = focus;
    let judged = if crash_focus {
        false
    } else if cap_focus {
        matches!(req, Req::InsertLocal { .. } | Req::DeletePrefix { .. } | Req::ExportSecret { .. } | Req::Import { .. } | Req::Shutdown)
    } else if removal_focus {
        matches!(req, Req::Drop { .. } | Req::Open { .. } | Req::GetState { .. } | Req::InsertLocal { .. } | Req::GetExact { .. } | Req::Import { .. } | Req::Hashes | Req::Shutdown)
    } else {
        true
    };
    if !judged {
        // not judged in capability mode; still hand back the store of a shutdown
        return Ok(match reply {
            Reply::Store(Ok(s)) => Some(s),
            _ => None,
        });
    }
    check_reply(idx, req, expect, reply)
}

fn check_reply(idx: usize, req: &Req, expect: &Expect, reply: Reply) -> Res<Option<iroh_docs::store::Store>> {
    let bad = |what: String| Violation::new(format!("reply/{}", req_name(req)), format!("request #{idx} {req:?}: {what}"));
    let is_ok = match &reply {
        Reply::Unit(r) => r.is_ok(),
        Reply::Bool(r) => r.is_ok(),
        Reply::Count(r) => r.is_ok(),
        Reply::Entry(r) => r.is_ok(),
        Reply::State(r) => r.is_ok(),
        Reply::Secret(r) => r.is_ok(),
        Reply::Msg(r) => r.is_ok(),
        Reply::Store(r) => r.is_ok(),
        Reply::Policy(r) => r.is_ok(),
        Reply::Peers(r) => r.is_ok(),
        Reply::List(r) => r.is_ok(),
        Reply::Hashes(r) => r.is_ok(),
    };
    match (expect, reply) {
        (Expect::Any, _) => Ok(None),
        (Expect::Err, r) => {
            if is_ok {
                Err(bad(format!("succeeded ({r:?}) although the sequential model says it must fail (document not open / sync disabled / read-only / superseded / actor stopped)").chars().take(400).collect()))
            } else {
                Ok(None)
            }
        }
        (Expect::Ok | Expect::AnyOk, r) => {
            if is_ok { Ok(None) } else { Err(bad(format!("failed ({r:?}) although all earlier requests make it valid").chars().take(400).collect())) }
        }
        (Expect::Bool(b), Reply::Bool(Ok(g))) => if g == *b { Ok(None) } else { Err(bad(format!("returned {g}, the earlier requests say {b}"))) },
        (Expect::Hashes(want), Reply::Hashes(Ok(g))) => if g == *want { Ok(None) } else { Err(bad(format!("reported {} distinct content hashes, the entries held in all documents have {}", g.len(), want.len()))) },
        (Expect::List(want), Reply::List(Ok(g))) => if g == *want { Ok(None) } else { Err(bad(format!("listed {} items, the earlier requests give {} (or kinds differ)", g.len(), want.len()))) },
        (Expect::Policy(want), Reply::Policy(Ok(g))) => if g == *want { Ok(None) } else { Err(bad("returned a policy that is not the last one set (or the default)".to_string())) },
        (Expect::Peers(want), Reply::Peers(Ok(g))) => if g == *want { Ok(None) } else { Err(bad(format!("returned peers {:?}, the registrations so far give {:?} (most recent first, first id byte shown)", g.map(|v| v.iter().map(|p| p[0]).collect::<Vec<_>>()), want.as_ref().map(|v| v.iter().map(|p| p[0]).collect::<Vec<_>>())))) },
        (Expect::Count(n), Reply::Count(Ok(g))) | (Expect::Count(n), Reply::Msg(Ok(g))) => if g == *n { Ok(None) } else { Err(bad(format!("returned {g}, expected {n}"))) },
        (Expect::Entry(e), Reply::Entry(Ok(g))) => {
            let want = e.as_ref().map(|e| e.signed());
            if g == want { Ok(None) } else { Err(bad(format!("returned {:?}, earlier requests give {:?}", g.map(|e| format!("{:?}", e.entry())), e.as_ref().map(|e| e.short())))) }
        }
        (Expect::State { handles, sync, subs }, Reply::State(Ok(s))) => {
            if s.handles == *handles && s.sync == *sync && s.subscribers == *subs { Ok(None) } else { Err(bad(format!("state handles={} sync={} subscribers={}, expected handles={handles} sync={sync} subscribers={subs}", s.handles, s.sync, s.subscribers))) }
        }
        (Expect::Secret(_), Reply::Secret(Ok(true))) => Ok(None),
        (Expect::Store, Reply::Store(Ok(s))) => Ok(Some(s)),
        (e, r) => Err(bad(format!("reply {r:?} does not fit expectation {e:?}").chars().take(400).collect())),
    }
}

fn req_name(r: &Req) -> &'static str {
    match r {
        Req::Open { .. } => "open",
        Req::Close { .. } => "close",
        Req::SetSync { .. } => "set-sync",
        Req::InsertLocal { .. } => "insert-local",
        Req::DeletePrefix { .. } => "delete-prefix",
        Req::InsertRemote { .. } => "insert-remote",
        Req::SyncInitial { .. } => "sync-initial",
        Req::SyncProcess { .. } => "sync-process",
        Req::GetExact { .. } => "get-exact",
        Req::GetMany { .. } => "get-many",
        Req::Subscribe { .. } => "subscribe",
        Req::GetState { .. } => "get-state",
        Req::Import { .. } => "import",
        Req::ExportSecret { .. } => "export-secret",
        Req::Drop { .. } => "drop",
        Req::Flush => "flush",
        Req::Shutdown => "shutdown",
        Req::SetPolicy { .. } => "set-policy",
        Req::GetPolicy { .. } => "get-policy",
        Req::RegisterPeer { .. } => "register-peer",
        Req::GetPeers { .. } => "get-peers",
        Req::HasNews { .. } => "has-news",
        Req::ListDocs => "list-docs",
        Req::ListAuthors => "list-authors",
        Req::Hashes => "content-hashes",
        Req::DeleteAuthor { .. } => "delete-author",
        Req::ImportAuthor { .. } => "import-author",
        Req::ExportAuthor { .. } => "export-author",
    }
}

fn finish_stream(s: &Stream) -> Res {
    match &s.expect {
        None => {
            if !s.errored || !s.got.is_empty() {
                return Err(Violation::new("reply/get-many", format!("request #{} get-many on a document that is not open returned {} entries (error reported: {})", s.idx, s.got.len(), s.errored)));
            }
        }
        Some(want) => {
            let want: Vec<SignedEntry> = want.iter().map(|e| e.signed()).collect();
            if s.errored || s.got != want {
                return Err(Violation::new("stream-snapshot/mismatch", format!("request #{} get-many(d{}) returned {} entries (error: {}), the state at its position in the request order has {}", s.idx, s.d, s.got.len(), s.errored, want.len())));
            }
        }
    }
    Ok(())
}

async fn run(plan: &ActorPlan, cx: &mut Cx, cap_focus: bool, removal_focus: bool, crash_focus: bool) -> Res {
    let focus = (cap_focus, removal_focus, crash_focus);
    let cap_focus = cap_focus || removal_focus || crash_focus; // these modes do not judge streams or the returned store
    let w = world();
    let mut sut = Sut::new(plan.backend)?;
    let mut m: Vec<MDoc> = vec![MDoc::default(); crate::world::N_DOCS];
    for d in 0..plan.docs {
        let ro = (plan.read_only >> d) & 1 == 1;
        let cap = if ro { Capability::Read(w.doc_id(d)) } else { Capability::Write(w.docs[d as usize].clone()) };
        sut.store().import_namespace(cap).map_err(|e| harness(format!("{e:#}")))?;
        m[d as usize].cap = Some(!ro);
    }
    for a in 0..2 {
        sut.store().import_author(w.authors[a].clone()).map_err(|e| harness(format!("{e:#}")))?;
    }
    let disk = sut.disk.clone();
    let node = Node::start(sut.store.take().unwrap());
    let mut clock = 10u64;
    node.set_clock(clock);
    let h = node.handle.clone();
    let mut pending: Vec<Pending> = Vec::new();
    let mut streams: Vec<Stream> = Vec::new();
    let mut alive = true;
    let mut idx = 0usize;
    let mut returned: Option<iroh_docs::store::Store> = None;
    let mut last_by_client: BTreeMap<u8, usize> = BTreeMap::new();
    let mut authors = [true, true];
    // entries of every document after each request, in send order (index = request number), and
    // the number of the last request known to be durable (an acknowledged flush)
    let mut snapshots: Vec<Vec<RefDoc>> = vec![m.iter().map(|d| d.doc.clone()).collect()];
    let mut flushed_upto = 0usize;

    // a crash after a shutdown (or without a disk) is just the end of the run
    let has_shutdown = plan.steps.iter().any(|s| matches!(s, AStep::Send { req: Req::Shutdown, .. } | AStep::SendDropReply { req: Req::Shutdown, .. }));
    let steps: Vec<AStep> = plan.steps.iter().map(|s| if matches!(s, AStep::Crash { .. }) && (has_shutdown || disk.is_none()) { AStep::Await } else { s.clone() }).collect();
    for step in &steps {
        match step {
            AStep::Send { client, req } | AStep::SendDropReply { client, req } => {
                let drop_reply = matches!(step, AStep::SendDropReply { .. });
                if let (Req::Drop { d }, true) = (req, alive) {
                    if m[*d as usize].handles > 1 {
                        // Removal while other handles hold the document open must be refused. The
                        // statement does not say whether the refused request still releases the
                        // caller's handle, so the count is read back afterwards (h or h-1).
                        barrier().await;
                        for p in pending.drain(..) {
                            let Pending { idx, req, mut fut, expect } = p;
                            let reply = match poll_once(&mut fut) {
                                Poll::Ready(r) => r,
                                Poll::Pending => match tokio::time::timeout(Duration::from_secs(30), fut).await {
                                    Ok(r) => r,
                                    Err(_) => return Err(Violation::new(format!("hang/{}", req_name(&req)), format!("request #{idx} {req:?} got no reply within 30 virtual seconds"))),
                                },
                            };
                            if let Some(st) = check_reply_focus(idx, &req, &expect, reply, focus)? {
                                returned = Some(st);
                            }
                        }
                        idx += 1;
                        snapshots.push(m.iter().map(|d| d.doc.clone()).collect());
                        let before = m[*d as usize].handles;
                        let r = h.drop_replica(world().doc_id(*d)).await;
                        cx.ev("send", format!("c{client} #{idx} {req:?} (handles {before}) -> ok={}", r.is_ok()));
                        cx.probe("drop_while_other_handles_open");
                        if r.is_ok() {
                            return Err(Violation::new("reply/drop", format!("request #{idx}: the document was removed although {before} handles hold it open")));
                        }
                        match h.get_state(world().doc_id(*d)).await {
                            Ok(st) if st.handles == before || st.handles + 1 == before => m[*d as usize].handles = st.handles,
                            other => return Err(Violation::new("reply/get-state", format!("after a refused removal with {before} handles the document reports {other:?}"))),
                        }
                        continue;
                    }
                }
                idx += 1;
                let mut stream_expect = None;
                let mut expect = model_apply(&mut m, &mut authors, req, clock, &mut alive, &mut stream_expect, cx);
                snapshots.push(m.iter().map(|d| d.doc.clone()).collect());
                if matches!(req, Req::GetMany { .. } | Req::ListDocs | Req::ListAuthors) && matches!(expect, Expect::Err) {
                    // streaming requests only report whether the request could be queued; after a
                    // shutdown their stream simply ends
                    expect = Expect::Any;
                }
                let was_alive_for_stream = alive;
                let mut fut = submit(&h, req, &mut streams, idx, stream_expect).unwrap();
                if matches!(req, Req::GetMany { .. }) && !was_alive_for_stream {
                    // actor already stopped: the request cannot even be sent
                    if let Some(s) = streams.last_mut() {
                        s.expect = None;
                        s.errored = true;
                    }
                }
                cx.ev("send", format!("c{client} #{idx} {req:?}"));
                last_by_client.insert(*client, idx);
                match poll_once(&mut fut) {
                    Poll::Ready(reply) => {
                        // completes at once only if the request could not be sent (actor stopped) or needs no reply
                        if let Some(st) = check_reply_focus(idx, req, &expect, reply, focus)? {
                            returned = Some(st);
                        }
                    }
                    Poll::Pending => {
                        if drop_reply {
                            cx.fault("reply_receiver_dropped_before_answer");
                            if !matches!(req, Req::GetExact { .. } | Req::GetState { .. } | Req::GetPolicy { .. } | Req::GetPeers { .. } | Req::HasNews { .. } | Req::ListDocs | Req::ListAuthors | Req::Hashes | Req::ExportAuthor { .. }) {
                                cx.probe("caller_gave_up_on_a_state_changing_request");
                            }
                            drop(fut);
                        } else {
                            pending.push(Pending { idx, req: req.clone(), fut, expect });
                        }
                    }
                }
            }
            AStep::Await => {
                barrier().await;
                cx.sim_ms += 1;
                let mut order_ok = true;
                for (i, p) in pending.drain(..).enumerate() {
                    let Pending { idx, req, mut fut, expect } = p;
                    // after a barrier every reply must already be there (no hang)
                    let reply = match poll_once(&mut fut) {
                        Poll::Ready(r) => r,
                        Poll::Pending => {
                            // give it virtual time; a reply that never comes is a hang
                            match tokio::time::timeout(Duration::from_secs(30), fut).await {
                                Ok(r) => {
                                    cx.sim_ms += 1;
                                    r
                                }
                                Err(_) => return Err(Violation::new(format!("hang/{}", req_name(&req)), format!("request #{idx} {req:?} got no reply within 30 virtual seconds"))),
                            }
                        }
                    };
                    let _ = (i, &mut order_ok);
                    cx.ev("reply", format!("#{idx} {}", match &reply { Reply::Store(_) => "store".to_string(), r => format!("{r:?}").chars().take(80).collect() }));
                    if matches!(req, Req::Flush) && matches!(reply, Reply::Unit(Ok(()))) {
                        flushed_upto = flushed_upto.max(idx);
                    }
                    // a list is streamed by a task of the actor; like a get-many stream it is cut
                    // short, without an error, by a shutdown that follows it, and is then not judged
                    let expect = if !alive && matches!(req, Req::ListDocs | Req::ListAuthors) { Expect::Any } else { expect };
                    if let Some(st) = check_reply_focus(idx, &req, &expect, reply, focus)? {
                        returned = Some(st);
                    }
                }
            }
            AStep::Tick { dt } => {
                clock += dt;
                node.set_clock(clock);
            }
            AStep::Advance { ms } => {
                tokio::time::sleep(Duration::from_millis(*ms)).await;
                cx.sim_ms += ms;
                if *ms >= 500 {
                    cx.fault("flush_timer_fired");
                }
                cx.ev("advance", format!("{ms}"));
            }
            AStep::Consume { n } => {
                if streams.is_empty() {
                    continue;
                }
                barrier().await;
                let mut done = false;
                {
                    let s = &mut streams[0];
                    let mut left = if *n == 0 { usize::MAX } else { *n as usize };
                    while left > 0 {
                        match tokio::time::timeout(Duration::from_secs(5), s.rx.recv()).await {
                            Ok(Ok(Some(Ok(e)))) => s.got.push(e),
                            Ok(Ok(Some(Err(_)))) => s.errored = true,
                            Ok(Ok(None)) | Ok(Err(_)) => {
                                done = true;
                                break;
                            }
                            Err(_) => {
                                if alive {
                                    return Err(Violation::new("hang/get-many", format!("stream of request #{} delivers nothing within 5 virtual seconds", s.idx)));
                                }
                                done = true;
                                break;
                            }
                        }
                        left -= 1;
                    }
                    cx.ev("consume", format!("#{} got={}", s.idx, s.got.len()));
                    cx.probe("stream_consumed_after_later_writes");
                }
                if done {
                    let s = streams.remove(0);
                    // a stream cut short by a shutdown is not judged: its task is aborted with the actor
                    if alive && !cap_focus {
                        finish_stream(&s)?;
                    }
                }
            }
            AStep::Crash { l2, settle } => {
                let Some(disk) = disk.as_ref() else { continue };
                if !alive {
                    continue;
                }
                if *settle {
                    barrier().await;
                }
                let img = disk.crash(if *l2 { crate::disk::Loss::L2 } else { crate::disk::Loss::L1 });
                cx.fault(if *l2 { "crash_L2" } else { "crash_L1" });
                cx.ev("crash", format!("l2={l2} settle={settle} requests={idx} flushed_upto={flushed_upto}"));
                node.task.abort();
                drop(pending);
                drop(streams);
                barrier().await;
                let mut re = Sut::from_image(img).map_err(|e| Violation::new("crash-image/open-fails", format!("the store does not open after a crash: {e}")))?;
                let mut got = Vec::new();
                for d in 0..plan.docs {
                    got.push(dump(re.store(), d).map_err(harness)?.doc);
                }
                // the image must show the documents as they were after some request that is not
                // older than the last acknowledged flush (requests are applied whole and in order)
                let fits = |k: usize| (0..plan.docs as usize).all(|d| snapshots[k][d] == got[d]);
                match (flushed_upto..snapshots.len()).find(|k| fits(*k)) {
                    Some(k) => {
                        if k < idx {
                            cx.probe("crash_lost_unflushed_requests");
                        }
                        if flushed_upto > 0 {
                            cx.probe("crash_after_acknowledged_flush");
                        }
                    }
                    None => {
                        let older = (0..flushed_upto).rev().find(|k| fits(*k));
                        let shown: Vec<String> = got.iter().map(|d| d.short()).collect();
                        return Err(match older {
                            Some(k) => Violation::new("crash-image/lost-flushed", format!("after the crash the store shows the state after request #{k}, but a flush acknowledged after request #{flushed_upto} had made everything up to there durable: {shown:?}")),
                            None => Violation::new("crash-image/no-such-state", format!("after the crash the store shows {shown:?}, which is not the state after any request between the last acknowledged flush (#{flushed_upto}) and the crash (#{idx})")),
                        });
                    }
                }
                return Ok(());
            }
            AStep::DropStream => {
                if !streams.is_empty() {
                    let s = streams.remove(0);
                    cx.fault("stream_receiver_dropped");
                    cx.ev("drop-stream", format!("#{}", s.idx));
                    drop(s);
                }
            }
        }
    }
    // drain remaining streams completely
    barrier().await;
    for mut s in streams.drain(..) {
        let mut complete = false;
        loop {
            match tokio::time::timeout(Duration::from_secs(5), s.rx.recv()).await {
                Ok(Ok(Some(Ok(e)))) => s.got.push(e),
                Ok(Ok(Some(Err(_)))) => s.errored = true,
                Ok(Ok(None)) | Ok(Err(_)) => {
                    complete = true;
                    break;
                }
                Err(_) => break,
            }
        }
        // a stream cut short by shutdown is not judged (its task is aborted with the actor)
        if alive && complete && !cap_focus {
            finish_stream(&s)?;
        } else if alive && !complete && !cap_focus {
            return Err(Violation::new("hang/get-many", format!("stream of request #{} never ends", s.idx)));
        }
    }
    // the store handed back by shutdown (or taken now) holds every acknowledged write
    let mut store = match returned {
        Some(s) => s,
        None => {
            if !alive {
                return Err(harness("shutdown was sent but no store came back"));
            }
            node.handle.shutdown().await.map_err(|e| Violation::new("shutdown-store/failed", format!("shutdown failed: {e:#}")))?
        }
    };
    if let Some(disk) = disk.as_ref() {
        // before the handed-back store is touched (reading it would commit its open transaction)
        // already now, while the returned store is still alive: shutdown is the last thing the
        // caller hears from the actor, so what it acknowledged must be in the file, not in an open
        // transaction of the handed-back handle that a kill at this instant would lose
        let mut now = Sut::from_image(disk.durable_image()).map_err(|e| Violation::new("shutdown-store/reopen", format!("the file does not open right after shutdown: {e}")))?;
        for d in 0..plan.docs {
            let got = dump(now.store(), d).map_err(harness)?;
            compare("shutdown-store/not-durable", &format!("d{d} in the file at the moment shutdown returned (the handed-back store is still alive)"), &got, &m[d as usize].doc)?;
        }
        drop(now);
    }
    for d in 0..plan.docs {
        let got = dump(&mut store, d).map_err(harness)?;
        compare("shutdown-store", &format!("d{d} in the store returned by shutdown"), &got, &m[d as usize].doc)?;
    }
    // and so does its disk image after reopening
    if let Some(disk) = disk {
        drop(store);
        let img = disk.image();
        let mut re = Sut::from_image(img).map_err(|e| Violation::new("shutdown-store/reopen", format!("reopen after shutdown failed: {e}")))?;
        for d in 0..plan.docs {
            let got = dump(re.store(), d).map_err(harness)?;
            compare("shutdown-store", &format!("d{d} after reopening the disk image left by shutdown"), &got, &m[d as usize].doc)?;
        }
        cx.fault("clean_restart");
    }
    Ok(())
}
