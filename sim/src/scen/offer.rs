//! Scenario `offer`: one multiset of valid entries, several replicas each receiving a different
//! permutation-with-duplicates through randomly chosen ingress paths, with clean restarts and
//! transaction ageing in between (C02; with the heads oracle: C13).

use std::collections::BTreeMap;

use iroh_docs::AuthorHeads;
use serde::{Deserialize, Serialize};

use crate::{
    model::RefDoc,
    ops::{arm_age, disarm_age, offer, OfferResult, Path},
    rng::Rng,
    runner::{block_on_sim, shrink_vec, Cx, Res, Scenario, Tier, Violation},
    sut::{compare, dump, ensure_doc, harness, heads, Backend, Sut},
    world::{gen_ent, world, Ent, GenCfg},
};

#[derive(Clone, Copy, PartialEq, Eq, Debug)]
pub enum Mode {
    /// C02: order independence, offer results, pruning
    State,
    /// C13: author heads and news detection
    Heads,
}

pub struct Offer {
    pub mode: Mode,
    /// several hundred entries under one prefix (anything that handles children, parents or
    /// prefix scans in bounded pieces shows up here)
    pub large: bool,
}

#[derive(Serialize, Deserialize, Clone, Debug)]
pub enum OStep {
    Offer { i: usize, path: Path },
    Check,
    Restart,
    /// C13 only: the process dies (all writes so far / synced writes only survive); whatever the
    /// reopened replica holds, its heads must be the heads of exactly those entries
    Crash { l2: bool },
    /// C13 only: the store is reopened from a file without the head table and/or the by-key
    /// index (as written by an older version); the rebuilt heads must again be the heads of
    /// exactly the entries held
    Rebuild { by_key: bool, heads: bool },
    Flush,
    /// age the open transaction at the n-th internal store call of the next operation
    Age { at: u32 },
    /// C13: ask `has_news_for_us` about this head report (author index, timestamp)
    News { heads: Vec<(u8, u64)> },
    /// an operation that has nothing to do with the entries of the document under test
    Side(SideOp),
    /// the document under test is closed, removed and created again from the same secret, in the
    /// same long-lived store: it starts a new life, empty, and nothing of the old one may matter
    Recreate,
}

#[derive(Serialize, Deserialize, Clone, Debug)]
pub enum SideOp {
    /// write to another document of the same store
    NeighbourWrite { e: Ent },
    /// remove another document of the same store
    NeighbourRemove { d: u8 },
    /// set a download policy / register a peer / read everything / import a read-only capability
    /// for the document under test
    Policy,
    Peer { p: u8 },
    Read,
    ImportRead,
}

#[derive(Serialize, Deserialize, Clone, Debug)]
pub struct OfferPlan {
    pub seed: u64,
    pub backend: Backend,
    pub items: Vec<Ent>,
    pub replicas: Vec<Vec<OStep>>,
    /// which document of the store receives the offers
    #[serde(default)]
    pub primary: u8,
    /// entries of the OTHER documents in the same store; they must never be touched
    #[serde(default)]
    pub neighbours: Vec<Ent>,
}

impl Scenario for Offer {
    type Plan = OfferPlan;

    fn name(&self) -> String {
        match self.mode {
            Mode::State if self.large => "offer-large".into(),
            Mode::State => "offer".into(),
            Mode::Heads => "offer-heads".into(),
        }
    }

    fn gen(&self, rng: &mut Rng, tier: Tier) -> OfferPlan {
        if self.large {
            return gen_large(rng, tier);
        }
        let mut g = GenCfg::swarm(rng);
        g.authors = crate::world::gen_author_count(rng, 3);
        let n = rng.urange(1, tier.pick(10, 16));
        let items: Vec<Ent> = (0..n).map(|_| gen_ent(rng, &g)).collect();
        let backend = match rng.below(10) {
            0..=4 => Backend::Mem,
            5..=8 => Backend::Disk,
            _ => Backend::File,
        };
        let nrep = rng.urange(2, 3);
        let mut replicas = Vec::new();
        for _ in 0..nrep {
            let mut order: Vec<usize> = (0..n).collect();
            // duplications
            for _ in 0..rng.urange(0, n.min(4)) {
                order.push(rng.usize_below(n));
            }
            rng.shuffle(&mut order);
            let mut steps = Vec::new();
            for i in order {
                match rng.below(20) {
                    0 => steps.push(OStep::Check),
                    1 if backend != Backend::Mem => steps.push(OStep::Restart),
                    8 if backend == Backend::Disk && self.mode == Mode::Heads => steps.push(OStep::Crash { l2: rng.chance(1, 2) }),
                    10 if backend == Backend::Disk && self.mode == Mode::Heads => steps.push(OStep::Rebuild { by_key: rng.chance(1, 3), heads: rng.chance(5, 6) }),
                    2 => steps.push(OStep::Flush),
                    3 | 4 => steps.push(OStep::Age { at: rng.below(6) as u32 }),
                    5 if self.mode == Mode::Heads => steps.push(OStep::News { heads: gen_heads(rng, &g) }),
                    9 if rng.chance(1, 2) => steps.push(OStep::Recreate),
                    6 | 7 => {
                        let gn = GenCfg { docs: 4, authors: 4, max_key_len: 2, ts_values: 4, marker_pct: 20, contents: 3 };
                        steps.push(OStep::Side(match rng.below(8) {
                            0..=2 => SideOp::NeighbourWrite { e: gen_ent(rng, &gn) },
                            3 => SideOp::NeighbourRemove { d: rng.below(4) as u8 },
                            4 => SideOp::Policy,
                            5 => SideOp::Peer { p: rng.below(6) as u8 },
                            6 => SideOp::Read,
                            _ => SideOp::ImportRead,
                        }));
                    }
                    _ => {}
                }
                let path = match rng.below(10) {
                    0..=2 => Path::Local,
                    3..=6 => Path::Remote,
                    _ => Path::InMessage,
                };
                steps.push(OStep::Offer { i, path });
            }
            if self.mode == Mode::Heads {
                steps.push(OStep::News { heads: gen_heads(rng, &g) });
            }
            replicas.push(steps);
        }
        let primary = if rng.chance(1, 2) { 0 } else { rng.below(4) as u8 };
        let neighbours: Vec<Ent> = if rng.chance(1, 2) {
            Vec::new()
        } else {
            let gn = GenCfg { docs: 4, authors: 4, max_key_len: 2, ts_values: 4, marker_pct: 20, contents: 3 };
            (0..rng.urange(1, 6)).map(|_| gen_ent(rng, &gn)).filter(|e| e.d != primary).collect()
        };
        OfferPlan { seed: rng.next_u64(), backend, items, replicas, primary, neighbours }
    }

    fn exec(&self, plan: &OfferPlan, cx: &mut Cx) -> Res {
        block_on_sim(plan.seed, self.run(plan, cx))
    }

    fn shrink(&self, plan: &OfferPlan) -> Vec<OfferPlan> {
        let mut out = Vec::new();
        // drop entries that no step refers to any more
        let used: std::collections::BTreeSet<usize> = plan.replicas.iter().flatten().filter_map(|s| if let OStep::Offer { i, .. } = s { Some(*i) } else { None }).collect();
        if used.len() < plan.items.len() {
            let map: std::collections::BTreeMap<usize, usize> = used.iter().enumerate().map(|(new, old)| (*old, new)).collect();
            let mut p = plan.clone();
            p.items = used.iter().filter_map(|i| plan.items.get(*i).cloned()).collect();
            for r in p.replicas.iter_mut() {
                r.retain(|s| if let OStep::Offer { i, .. } = s { map.contains_key(i) && *i < plan.items.len() } else { true });
                for s in r.iter_mut() {
                    if let OStep::Offer { i, .. } = s {
                        *i = map[i];
                    }
                }
            }
            out.push(p);
        }
        // fewer replicas
        if plan.replicas.len() > 1 {
            for i in 0..plan.replicas.len() {
                let mut p = plan.clone();
                p.replicas.remove(i);
                out.push(p);
            }
        }
        // fewer steps per replica
        for (ri, steps) in plan.replicas.iter().enumerate() {
            for c in shrink_vec(steps) {
                let mut p = plan.clone();
                p.replicas[ri] = c;
                out.push(p);
            }
        }
        if !plan.neighbours.is_empty() {
            let mut p = plan.clone();
            p.neighbours.clear();
            out.push(p);
        }
        // simpler backend, simpler paths
        if plan.backend != Backend::Mem && !plan.replicas.iter().flatten().any(|s| matches!(s, OStep::Restart | OStep::Crash { .. } | OStep::Rebuild { .. })) {
            let mut p = plan.clone();
            p.backend = Backend::Mem;
            out.push(p);
        }
        for (ri, steps) in plan.replicas.iter().enumerate() {
            for (si, s) in steps.iter().enumerate() {
                if let OStep::Offer { i, path } = s {
                    if *path != Path::Remote {
                        let mut p = plan.clone();
                        p.replicas[ri][si] = OStep::Offer { i: *i, path: Path::Remote };
                        out.push(p);
                    }
                }
            }
        }
        // shorter keys / smaller timestamps
        for (ii, it) in plan.items.iter().enumerate() {
            if it.k.len() > 0 {
                let mut p = plan.clone();
                p.items[ii].k.pop();
                out.push(p);
            }
            if it.ts > 1 {
                let mut p = plan.clone();
                p.items[ii].ts -= 1;
                out.push(p);
            }
        }
        out
    }

    fn components(&self) -> (Vec<&'static str>, Vec<&'static str>) {
        (
            vec!["sync::Replica (insert, delete_prefix, insert_remote_entry, sync_process_message)", "ranger::Store::put", "store::fs (redb tables, bounds, parents, prefix removal, heads table)", "redb"],
            vec!["disk (SimDisk under redb, or redb in-memory backend, or a real file in /dev/shm)", "wall clock (thread-local hook)", "peer (messages crafted through the public postcard encoding)"],
        )
    }

    fn rule(&self) -> String {
        if self.large {
            return "A run offers two replicas, each in its own order with duplicates, 130-600 entries of one author at distinct keys under a common prefix of 0-2 bytes, 1-6 entries (records and deletion markers, older / equal / newer) at the prefix, at shorter prefixes, at the empty key and one level below the prefix, and 0-4 entries of a second author under the same prefix; every offer result and the final states are compared with the reference model.".into();
        }
        "A run draws 1-16 entries from the biased alphabet (keys over {00,01,'a','b',FE,FF} up to length 4, 1-3 authors, few timestamps, ~25% deletion markers) and offers each of 2-3 replicas its own permutation with duplicates through local / remote / in-message paths, with clean restarts, flushes and transaction ageing (reorder, duplicate, restart, age-commit faults); in between, operations that have nothing to do with these entries (writes to and removal of other documents of the store, a download policy, a peer registration, a read, a read-only capability import for the same document) must change nothing.".into()
    }
}

/// 130-600 entries of one author under a common prefix, a few entries at the prefix, at shorter
/// prefixes and one level below it (records and deletion markers, older / equal / newer), and a
/// few entries of a second author under the same prefix; two replicas, each its own order.
fn gen_large(rng: &mut Rng, tier: Tier) -> OfferPlan {
    use crate::world::ALPHABET;
    let plen = rng.urange(0, 2);
    let prefix: Vec<u8> = (0..plen).map(|_| *rng.pick(&ALPHABET)).collect();
    let n_children = *rng.pick(&[130usize, 200, 257, 300, tier.pick(400, 600)]);
    let mut items: Vec<Ent> = Vec::new();
    let mut seen = std::collections::BTreeSet::new();
    while items.len() < n_children {
        let mut k = prefix.clone();
        k.push(rng.below(256) as u8);
        k.push(rng.below(256) as u8);
        if seen.insert(k.clone()) {
            items.push(Ent { d: 0, a: 0, k, ts: rng.range(2, 4), c: rng.range(1, 3) as u8 });
        }
    }
    // parents and near-parents
    for _ in 0..rng.urange(1, 6) {
        let k = match rng.below(4) {
            0 => prefix.clone(),
            1 => prefix[..prefix.len().saturating_sub(1)].to_vec(),
            2 => Vec::new(),
            _ => {
                let mut k = prefix.clone();
                k.push(rng.below(256) as u8);
                k
            }
        };
        items.push(Ent { d: 0, a: 0, k, ts: rng.range(1, 5), c: if rng.chance(1, 2) { 0 } else { rng.range(1, 3) as u8 } });
    }
    // another author under the same prefix: never touched
    for _ in 0..rng.urange(0, 4) {
        let mut k = prefix.clone();
        k.push(rng.below(256) as u8);
        items.push(Ent { d: 0, a: 1, k, ts: rng.range(1, 5), c: rng.range(0, 3) as u8 });
    }
    let n = items.len();
    let backend = match rng.below(10) {
        0..=5 => Backend::Mem,
        _ => Backend::Disk,
    };
    let mut replicas = Vec::new();
    for _ in 0..2 {
        let mut order: Vec<usize> = (0..n).collect();
        for _ in 0..rng.urange(0, 6) {
            order.push(rng.usize_below(n));
        }
        rng.shuffle(&mut order);
        let mut steps = Vec::new();
        for (j, i) in order.into_iter().enumerate() {
            if j % 97 == 96 && rng.chance(1, 2) {
                steps.push(OStep::Check);
            }
            if backend != Backend::Mem && rng.chance(1, 300) {
                steps.push(OStep::Restart);
            }
            let path = match rng.below(10) {
                0 => Path::Local,
                1..=7 => Path::Remote,
                _ => Path::InMessage,
            };
            steps.push(OStep::Offer { i, path });
        }
        replicas.push(steps);
    }
    OfferPlan { seed: rng.next_u64(), backend, items, replicas, primary: if rng.chance(1, 2) { 0 } else { rng.below(4) as u8 }, neighbours: Vec::new() }
}

fn gen_heads(rng: &mut Rng, g: &GenCfg) -> Vec<(u8, u64)> {
    let n = if g.authors > 4 { rng.urange(0, g.authors as usize + 1) } else { rng.urange(0, 3) };
    (0..n).map(|_| (rng.below(g.authors as u64 + 1) as u8, rng.range(0, g.ts_values + 1))).collect()
}

impl Offer {
    async fn run(&self, plan: &OfferPlan, cx: &mut Cx) -> Res {
        let mut finals: Vec<RefDoc> = Vec::new();
        for (ri, steps) in plan.replicas.iter().enumerate() {
            let mut sut = Sut::new(plan.backend)?;
            let pd = plan.primary % 4;
            PRIMARY.with(|c| c.set(pd));
            ensure_doc(sut.store(), pd)?;
            // neighbour documents with smaller and larger ids live in the same store
            let mut neighbour_models: std::collections::BTreeMap<u8, RefDoc> = Default::default();
            for e in plan.neighbours.iter().filter(|e| e.d != pd) {
                ensure_doc(sut.store(), e.d)?;
                offer(sut.store(), e, Path::Remote).await?;
                neighbour_models.entry(e.d).or_default().offer(e);
            }
            if !neighbour_models.is_empty() {
                cx.probe("other_documents_in_the_same_store");
            }
            let mut model = RefDoc::default();
            let mut offered: Vec<Ent> = Vec::new();
            for step in steps {
                match step {
                    OStep::Offer { i, path } => {
                        let Some(e) = plan.items.get(*i) else { continue };
                        let mut e = e.clone();
                        e.d = pd;
                        let got = offer(sut.store(), &e, *path).await?;
                        disarm_age();
                        let want = model.offer(&e);
                        offered.push(e.clone());
                        cx.ev("offer", format!("r{ri} {} {:?} -> {:?}", e.short(), path, got));
                        if self.mode == Mode::State {
                            match (&got, want) {
                                (OfferResult::Inserted(n), Some(m)) if *n == m => {}
                                (OfferResult::Superseded, None) => {}
                                (OfferResult::Unknown, _) => {}
                                (OfferResult::Inserted(n), Some(m)) => {
                                    return Err(Violation::new("offer-result/count", format!("replica {ri}: inserting {} reported {n} removed entries, the prefix rule removes {m}; model before: {}", e.short(), model.short())));
                                }
                                (OfferResult::Inserted(_), None) => {
                                    return Err(Violation::new("offer-result/accepted-superseded", format!("replica {ri}: {} was accepted although a same-author entry at its key or a prefix of it is not older", e.short())));
                                }
                                (OfferResult::Superseded, Some(_)) => {
                                    return Err(Violation::new("offer-result/rejected-fresh", format!("replica {ri}: {} was rejected as superseded although nothing at its key or a prefix is as new", e.short())));
                                }
                                (OfferResult::Error(m), _) => {
                                    return Err(Violation::new("offer-result/error", format!("replica {ri}: offering valid entry {} failed: {m}", e.short())));
                                }
                            }
                        }
                    }
                    OStep::Check => {
                        self.check(sut.store(), &model, ri, cx, "mid-run")?;
                        check_neighbours(sut.store(), &neighbour_models, ri)?;
                    }
                    OStep::Restart => {
                        if sut.can_restart() {
                            sut.restart_clean()?;
                            cx.fault("clean_restart");
                            cx.ev("restart", format!("r{ri}"));
                        }
                    }
                    OStep::Rebuild { by_key, heads: drop_heads } => {
                        if self.mode == Mode::Heads && sut.backend == Backend::Disk && (*by_key || *drop_heads) {
                            crate::scen::query::drop_derived(&mut sut, *by_key, *drop_heads)?;
                            cx.fault("older_version_database");
                            cx.ev("rebuild", format!("r{ri} {by_key} {drop_heads}"));
                            self.check(sut.store(), &model, ri, cx, "after the derived tables were rebuilt")?;
                            check_neighbours(sut.store(), &neighbour_models, ri)?;
                            // the other documents of the store had their heads rebuilt too
                            for (nd, nm) in &neighbour_models {
                                let got: BTreeMap<u8, u64> = heads(sut.store(), *nd).map_err(harness)?.into_iter().map(|(a, (ts, _))| (a, ts)).collect();
                                let want: BTreeMap<u8, u64> = nm.heads();
                                if got != want {
                                    return Err(Violation::new("head/neighbour-after-rebuild", format!("replica {ri}: after the head table was rebuilt, document d{nd} of the same store reports heads {got:?}, its entries give {want:?}")));
                                }
                            }
                        }
                    }
                    OStep::Crash { l2 } => {
                        if self.mode == Mode::Heads && sut.backend == Backend::Disk {
                            sut.crash(if *l2 { crate::disk::Loss::L2 } else { crate::disk::Loss::L1 })?;
                            cx.fault(if *l2 { "crash_L2" } else { "crash_L1" });
                            // the crash may have taken un-committed entries away: the model follows
                            // what the replica holds now (C06 judges *which* states are legitimate);
                            // heads and news are then judged against exactly these entries
                            // (documents created since the last commit are gone, too)
                            ensure_doc(sut.store(), pd)?;
                            let ds: Vec<u8> = neighbour_models.keys().copied().collect();
                            for nd in ds {
                                ensure_doc(sut.store(), nd)?;
                                let d = dump(sut.store(), nd).map_err(harness)?;
                                neighbour_models.insert(nd, d.doc);
                            }
                            let d = dump(sut.store(), pd).map_err(harness)?;
                            cx.ev("crash", format!("r{ri} l2={l2} -> {}", d.doc.short()));
                            model = d.doc.clone();
                            self.check(sut.store(), &model, ri, cx, "after a crash")?;
                        }
                    }
                    OStep::Flush => {
                        sut.store().flush().map_err(|e| harness(format!("flush: {e:#}")))?;
                        cx.ev("flush", format!("r{ri}"));
                    }
                    OStep::Age { at } => {
                        let (_calls, fired) = arm_age(*at);
                        // the hook is consumed by the next operation; count it when it fired
                        let f = fired.clone();
                        cx.ev("age", format!("r{ri} at={at}"));
                        // remember to count: checked lazily below through probe on next step
                        AGE_FIRED.with(|c| *c.borrow_mut() = Some(f));
                    }
                    OStep::News { heads: h } => {
                        if self.mode == Mode::Heads {
                            self.check_news(sut.store(), h, ri, cx)?;
                        }
                    }
                    OStep::Recreate => {
                        let w = crate::world::world();
                        sut.store().close_replica(w.doc_id(pd));
                        sut.store().remove_replica(&w.doc_id(pd)).map_err(|e| harness(format!("remove the document under test: {e:#}")))?;
                        ensure_doc(sut.store(), pd)?;
                        model = RefDoc::default();
                        offered.clear();
                        cx.fault("document_removed_and_created_again");
                        cx.ev("recreate", format!("r{ri}"));
                        self.check(sut.store(), &model, ri, cx, "after re-creation")?;
                    }
                    OStep::Side(op) => {
                        let w = crate::world::world();
                        let ns = w.doc_id(pd);
                        cx.probe("unrelated_operation_in_between");
                        match op {
                            SideOp::NeighbourWrite { e } => {
                                if e.d % 4 != pd {
                                    let mut e = e.clone();
                                    e.d %= 4;
                                    ensure_doc(sut.store(), e.d)?;
                                    offer(sut.store(), &e, Path::Remote).await?;
                                    disarm_age();
                                    neighbour_models.entry(e.d).or_default().offer(&e);
                                }
                            }
                            SideOp::NeighbourRemove { d } => {
                                let d = *d % 4;
                                if d != pd && neighbour_models.contains_key(&d) {
                                    sut.store().remove_replica(&w.doc_id(d)).map_err(|e| harness(format!("remove neighbour: {e:#}")))?;
                                    neighbour_models.insert(d, RefDoc::default());
                                    cx.probe("neighbour_document_removed");
                                }
                            }
                            SideOp::Policy => {
                                let p = iroh_docs::store::DownloadPolicy::NothingExcept(vec![iroh_docs::store::FilterKind::Prefix(bytes::Bytes::from_static(b"a"))]);
                                sut.store().set_download_policy(&ns, p).map_err(|e| harness(format!("set policy: {e:#}")))?;
                            }
                            SideOp::Peer { p } => {
                                sut.store().register_useful_peer(ns, w.peers[*p as usize]).map_err(|e| harness(format!("register peer: {e:#}")))?;
                            }
                            SideOp::Read => {
                                let n = sut.store().get_many(ns, iroh_docs::store::Query::all()).map_err(|e| harness(format!("{e:#}")))?.count();
                                let _ = n;
                            }
                            SideOp::ImportRead => {
                                sut.store().import_namespace(iroh_docs::Capability::Read(ns)).map_err(|e| harness(format!("import: {e:#}")))?;
                            }
                        }
                        disarm_age();
                    }
                }
                AGE_FIRED.with(|c| {
                    let mut c = c.borrow_mut();
                    if let Some(f) = c.as_ref() {
                        if f.get() {
                            cx.fault("age_commit_inside_operation");
                            *c = None;
                        }
                    }
                });
            }
            disarm_age();
            let d = self.check(sut.store(), &model, ri, cx, "final")?;
            check_neighbours(sut.store(), &neighbour_models, ri)?;
            if self.mode == Mode::State {
                let join = RefDoc::join(offered.iter());
                if model != join {
                    return Err(harness("model self-test: fold(offer) != join"));
                }
                // all entries were offered to every replica, so all must agree with join(items)
                let all: Vec<Ent> = plan.items.iter().cloned().map(|mut e| { e.d = pd; e }).collect();
                let offered_all = all.iter().all(|e| offered.contains(e));
                if offered_all {
                    finals.push(d);
                }
            }
            if model.0.len() != offered.len() {
                cx.probe("superseded_or_pruned");
            }
        }
        if self.mode == Mode::State {
            for (i, f) in finals.iter().enumerate().skip(1) {
                if f != &finals[0] {
                    return Err(Violation::new("permutation/diverge", format!("replica 0 holds {} but replica {i} holds {} after the same set of entries in a different order", finals[0].short(), f.short())));
                }
            }
        }
        Ok(())
    }

    fn check(&self, store: &mut iroh_docs::store::Store, model: &RefDoc, ri: usize, cx: &mut Cx, when: &str) -> Res<RefDoc> {
        let d = dump(store, PRIMARY.with(|c| c.get())).map_err(harness)?;
        cx.ev("check", format!("r{ri} {}", d.doc.short()));
        match self.mode {
            Mode::State => {
                compare("offer-state", &format!("replica {ri} ({when})"), &d, model)?;
                // what the replica holds must be the same through the key-ordered access path and
                // through point lookups (a held entry that one of them cannot see is not "held")
                let w = crate::world::world();
                let pd = PRIMARY.with(|c| c.get());
                let by_key: std::collections::BTreeSet<Vec<u8>> = store
                    .get_many(w.doc_id(pd), iroh_docs::store::Query::all().include_empty().sort_by(iroh_docs::store::SortBy::KeyAuthor, iroh_docs::store::SortDirection::Asc))
                    .map_err(|e| harness(format!("get_many: {e:#}")))?
                    .map(|r| r.map(|e| postcard::to_stdvec(&e).unwrap_or_default()).map_err(|e| harness(format!("{e:#}"))))
                    .collect::<Res<_>>()?;
                let want: std::collections::BTreeSet<Vec<u8>> = model.0.values().map(|e| postcard::to_stdvec(&e.signed()).unwrap_or_default()).collect();
                if by_key != want {
                    let kind = if by_key.len() < want.len() { "missing" } else { "extra" };
                    return Err(Violation::new(format!("offer-state/index-{kind}"), format!("replica {ri} ({when}): the key-ordered query returns {} entries, the replica holds {}: {}", by_key.len(), want.len(), model.short())));
                }
                for e in model.0.values() {
                    let got = store.get_exact(w.doc_id(pd), w.author_id(e.a), &e.k, true).map_err(|e| harness(format!("get_exact: {e:#}")))?;
                    if got.as_ref() != Some(&e.signed()) {
                        return Err(Violation::new("offer-state/lookup", format!("replica {ri} ({when}): the point lookup of held entry {} returns {}", e.short(), if got.is_some() { "another entry" } else { "nothing" })));
                    }
                }
            }
            Mode::Heads => {
                // heads must equal the greatest timestamp per author among the entries *held*
                let want = d.doc.heads();
                let got = heads(store, PRIMARY.with(|c| c.get())).map_err(harness)?;
                let got_ts: BTreeMap<u8, u64> = got.iter().map(|(a, (ts, _))| (*a, *ts)).collect();
                if got_ts != want {
                    let kind = if got_ts.keys().ne(want.keys()) {
                        if got_ts.len() > want.len() { "extra" } else { "missing" }
                    } else if got_ts.iter().any(|(a, t)| want.get(a).map(|w| t < w).unwrap_or(false)) {
                        "stale"
                    } else {
                        "ahead"
                    };
                    return Err(Violation::new(format!("head/{kind}"), format!("replica {ri} ({when}): reported heads {:?}, greatest held timestamps {:?}; held {}", got_ts, want, d.doc.short())));
                }
            }
        }
        Ok(d.doc)
    }

    fn check_news(&self, store: &mut iroh_docs::store::Store, h: &[(u8, u64)], ri: usize, cx: &mut Cx) -> Res {
        let w = world();
        let d = dump(store, PRIMARY.with(|c| c.get())).map_err(harness)?;
        let ours = d.doc.heads();
        let mut report = AuthorHeads::default();
        let mut merged: BTreeMap<u8, u64> = BTreeMap::new();
        for (a, ts) in h {
            let id = if (*a as usize) < w.authors.len() { w.author_id(*a) } else { w.foreign_author.id() };
            report.insert(id, *ts);
            let t = merged.entry(*a).or_insert(0);
            *t = (*t).max(*ts);
        }
        let want = merged.iter().filter(|(a, ts)| ours.get(a).map(|o| **ts > *o).unwrap_or(true)).count() as u64;
        let got = store.has_news_for_us(w.doc_id(PRIMARY.with(|c| c.get())), &report).map_err(|e| harness(format!("has_news_for_us: {e:#}")))?;
        let got = got.map(|n| n.get()).unwrap_or(0);
        cx.ev("news", format!("r{ri} {:?} -> {got}", h));
        if got != want {
            return Err(Violation::new(
                if got > want { "news/spurious" } else { "news/missed" },
                format!("replica {ri}: head report {:?} flagged {got} authors as news, but against held entries {} exactly {want} are newer or unknown", merged, d.doc.short()),
            ));
        }
        Ok(())
    }
}

fn check_neighbours(store: &mut iroh_docs::store::Store, models: &std::collections::BTreeMap<u8, RefDoc>, ri: usize) -> Res {
    for (d, m) in models {
        let got = dump(store, *d).map_err(harness)?;
        compare("foreign-untouched", &format!("replica {ri}: another document (d{d}) in the same store"), &got, m)?;
    }
    Ok(())
}

thread_local! {
    static PRIMARY: std::cell::Cell<u8> = const { std::cell::Cell::new(0) };
    static AGE_FIRED: std::cell::RefCell<Option<std::rc::Rc<std::cell::Cell<bool>>>> = const { std::cell::RefCell::new(None) };
}
