//! Scenario `session` (C10): the initiating (`run_alice`) or accepting (`BobState::run` +
//! `into_outcome`) side of a sync session runs against a real local store actor over SimPipes.
//! The other side is the real counterpart or a scripted peer sending any frame sequence; the
//! stream is chunked, cut (EOF or reset) after any byte in either direction, and the local
//! replica is closed / sync-disabled / its actor shut down before any message of the session.

use std::{cell::RefCell, rc::Rc, time::Duration};

use iroh_docs::{
    actor::OpenOpts,
    net::{
        codec_verif::{run_alice, BobState, WireMessage, WireReader, WireWriter},
        AbortReason, AcceptError, AcceptOutcome, ConnectError,
    },
    SyncOutcome,
};
use serde::{Deserialize, Serialize};

use crate::{
    model::RefDoc,
    msg::{MFp, MMessage, MPart, MRange, MRangeFp},
    node::Node,
    ops::{offer, Path},
    pipe::{first_frame_len, pipe, PipeCtl},
    rng::Rng,
    runner::{barrier, block_on_sim, shrink_vec, Cx, Res, Scenario, Tier, Violation},
    sut::{dump, ensure_doc, harness, Backend, Sut},
    world::{gen_ent, world, Ent, GenCfg},
};

/// `enumerate`: instead of sampling, the run index is decoded into one combination of
/// side x accept-callback outcome x local fault (none, or one of 5 kinds before frame 0..2) x
/// script (every sequence of up to 2 frames - thorough: 3 - over 13 representative frames),
/// so that a batch of exactly that many runs covers the bounded space completely.
pub struct Session {
    pub enumerate: bool,
}

pub const ENUM_SYMBOLS: u64 = 13;
pub fn enum_space(max_len: u32) -> u64 {
    let scripts: u64 = (0..=max_len).map(|l| ENUM_SYMBOLS.pow(l)).sum();
    2 * 4 * 16 * scripts
}

fn enum_frame(sym: u64) -> Frame {
    let e = |k: u8, ts: u64| Ent { d: 0, a: 0, k: vec![k], ts, c: 1 };
    match sym {
        0 => Frame::Init { known: true, carry: vec![] },
        1 => Frame::Init { known: false, carry: vec![] },
        2 => Frame::Init { known: true, carry: vec![e(b'a', 3)] },
        3 => Frame::SyncCarry { es: vec![e(b'b', 4)] },
        4 => Frame::SyncCarry { es: vec![] },
        5 => Frame::SyncRanges { n: 2 },
        6 => Frame::Abort { reason: 0 },
        7 => Frame::Abort { reason: 1 },
        8 => Frame::Abort { reason: 2 },
        9 => Frame::Garbage { len: 5, fill: 0xAA },
        10 => Frame::Garbage { len: 0, fill: 0 },
        11 => Frame::Oversized,
        _ => Frame::Truncated { announce: 20, have: 3 },
    }
}

fn gen_enumerated(rng: &mut Rng, tier: Tier) -> SessionPlan {
    let g = GenCfg { docs: 1, authors: 2, max_key_len: 2, ts_values: 5, marker_pct: 20, contents: 3 };
    let max_len = tier.pick(2, 3) as u32;
    let mut i = rng.run % enum_space(max_len);
    let sut_is_alice = i % 2 == 0;
    i /= 2;
    let accept = (i % 4) as u8;
    i /= 4;
    let f = i % 16;
    i /= 16;
    let local_fault = if f == 0 { None } else { Some((((f - 1) / 5) as usize, ((f - 1) % 5) as u8)) };
    // i now indexes the scripts: first those of length 0, then 1, ...
    let mut len = 0u32;
    while i >= ENUM_SYMBOLS.pow(len) {
        i -= ENUM_SYMBOLS.pow(len);
        len += 1;
    }
    let mut frames = Vec::new();
    for _ in 0..len {
        frames.push(enum_frame(i % ENUM_SYMBOLS));
        i /= ENUM_SYMBOLS;
    }
    SessionPlan {
        seed: rng.next_u64(),
        sut_is_alice,
        peer: PeerKind::Script(frames),
        sut_items: (0..rng.urange(0, 4)).map(|_| gen_ent(rng, &g)).collect(),
        peer_items: (0..rng.urange(0, 4)).map(|_| gen_ent(rng, &g)).collect(),
        chunk: *rng.pick(&[1usize, 7, 4096]),
        cut_to_sut: None,
        cut_from_sut: None,
        cut_in_frame: None,
        local_fault,
        accept,
        sut_doc_known: true,
        sut_sync: true,
    }
}

#[derive(Serialize, Deserialize, Clone, Debug, PartialEq)]
pub enum Frame {
    /// Init for the known document (or an unknown one) with a valid initial message
    /// the handshake; `carry` non-empty: its first message already carries these (valid) entries
    /// instead of the usual fingerprint of everything
    Init {
        known: bool,
        #[serde(default)]
        carry: Vec<Ent>,
    },
    /// Sync message carrying valid entries
    SyncCarry { es: Vec<Ent> },
    /// Sync message with made-up ranges and fingerprints
    SyncRanges { n: u8 },
    Abort { reason: u8 },
    /// raw bytes with a correct length prefix but an undecodable payload
    Garbage { len: u8, fill: u8 },
    /// a length prefix beyond the frame size limit
    Oversized,
    /// a frame announced longer than what follows before the close
    Truncated { announce: u8, have: u8 },
}

#[derive(Serialize, Deserialize, Clone, Debug)]
pub enum PeerKind {
    Real,
    Script(Vec<Frame>),
}

#[derive(Serialize, Deserialize, Clone, Debug)]
pub struct SessionPlan {
    pub seed: u64,
    pub sut_is_alice: bool,
    pub peer: PeerKind,
    pub sut_items: Vec<Ent>,
    pub peer_items: Vec<Ent>,
    pub chunk: usize,
    /// cut the stream towards the SUT after this many bytes (reset instead of EOF if true)
    pub cut_to_sut: Option<(usize, bool)>,
    pub cut_from_sut: Option<(usize, bool)>,
    /// cut the stream towards the SUT inside its k-th frame: `off >= 0` bytes after the start of
    /// the frame, `off < 0` bytes before its end (reset instead of EOF if true)
    #[serde(default)]
    pub cut_in_frame: Option<(usize, i32, bool)>,
    /// before the k-th frame is delivered to the SUT: 0 close the replica, 1 disable sync, 2 shut the actor down
    pub local_fault: Option<(usize, u8)>,
    /// accept callback of an accepting SUT: 0 allow, 1 not found, 2 already syncing, 3 internal error
    pub accept: u8,
    pub sut_doc_known: bool,
    pub sut_sync: bool,
}

fn reason_of(r: u8) -> AbortReason {
    match r % 3 {
        0 => AbortReason::NotFound,
        1 => AbortReason::AlreadySyncing,
        _ => AbortReason::InternalServerError,
    }
}

fn gen_frame(rng: &mut Rng, g: &GenCfg) -> Frame {
    match rng.below(14) {
        0..=3 => Frame::Init { known: rng.chance(4, 5), carry: if rng.chance(1, 3) { (0..rng.urange(1, 3)).map(|_| gen_ent(rng, g)).collect() } else { vec![] } },
        4..=6 => Frame::SyncCarry { es: (0..rng.urange(0, 2)).map(|_| gen_ent(rng, g)).collect() },
        7 => Frame::SyncRanges { n: rng.range(1, 3) as u8 },
        8..=9 => Frame::Abort { reason: rng.below(3) as u8 },
        10..=11 => Frame::Garbage { len: rng.below(12) as u8, fill: rng.below(256) as u8 },
        12 => Frame::Oversized,
        _ => Frame::Truncated { announce: rng.range(5, 40) as u8, have: rng.below(5) as u8 },
    }
}

impl Scenario for Session {
    type Plan = SessionPlan;
    fn name(&self) -> String {
        if self.enumerate { "session-enum".into() } else { "session".into() }
    }

    fn gen(&self, rng: &mut Rng, tier: Tier) -> SessionPlan {
        if self.enumerate {
            return gen_enumerated(rng, tier);
        }
        let g = GenCfg { docs: 1, authors: 2, max_key_len: 2, ts_values: 5, marker_pct: 20, contents: 3 };
        let sut_is_alice = rng.chance(1, 2);
        let max_frames = tier.pick(4, 6);
        let peer = if rng.chance(2, 5) {
            PeerKind::Real
        } else {
            let mut frames: Vec<Frame> = Vec::new();
            // bias: a plausible start, then anything
            if !sut_is_alice && rng.chance(3, 4) {
                frames.push(Frame::Init { known: rng.chance(5, 6), carry: if rng.chance(1, 3) { (0..rng.urange(1, 3)).map(|_| gen_ent(rng, &g)).collect() } else { vec![] } });
            }
            for _ in 0..rng.urange(0, max_frames) {
                frames.push(gen_frame(rng, &g));
            }
            PeerKind::Script(frames)
        };
        // a third of the runs: up to 20 entries per side at keys of one length (they do not prune each
        // other), so that a real-vs-real session takes several rounds and cuts / local faults land
        // in the middle of it
        let flat = rng.chance(1, 3);
        let span = if flat { 3000 } else { 400 };
        let cut = |rng: &mut Rng| if rng.chance(1, 4) { Some((rng.urange(0, span), rng.chance(1, 3))) } else { None };
        let max_items = if flat { 20 } else { 6 };
        let item = |rng: &mut Rng| {
            let mut e = gen_ent(rng, &g);
            if flat {
                e.k = (0..2).map(|_| *rng.pick(&crate::world::ALPHABET)).collect();
            }
            e
        };
        let mut sut_items: Vec<Ent> = (0..rng.urange(0, max_items)).map(|_| item(rng)).collect();
        let mut peer_items: Vec<Ent> = (0..rng.urange(0, max_items)).map(|_| item(rng)).collect();
        // one run in six: a side holds an entry written while its clock was an hour beyond the
        // future bound; the other side refuses it, the session still succeeds and counts it
        if rng.chance(1, 6) {
            let e = Ent { d: 0, a: rng.below(2) as u8, k: vec![0xFE, *rng.pick(&crate::world::ALPHABET)], ts: FAR_FUTURE + rng.below(3), c: 1 };
            match rng.below(3) {
                0 => sut_items.push(e),
                1 => peer_items.push(e),
                _ => {
                    sut_items.push(e.clone());
                    peer_items.push(Ent { a: 1 - e.a, ..e });
                }
            }
        }
        SessionPlan {
            seed: rng.next_u64(),
            sut_is_alice,
            peer,
            sut_items,
            peer_items,
            chunk: *rng.pick(&[1usize, 3, 7, 64, 4096]),
            cut_to_sut: cut(rng),
            cut_from_sut: cut(rng),
            cut_in_frame: if rng.chance(1, 5) { Some((rng.urange(0, if flat { 6 } else { 3 }), rng.range(0, 10) as i32 - 4, rng.chance(1, 4))) } else { None },
            local_fault: if rng.chance(1, 3) { Some((rng.urange(0, if flat { 9 } else { 4 }), rng.below(5) as u8)) } else { None },
            accept: if rng.chance(3, 4) { 0 } else { rng.range(1, 3) as u8 },
            sut_doc_known: rng.chance(9, 10),
            sut_sync: rng.chance(9, 10),
        }
    }

    fn exec(&self, plan: &SessionPlan, cx: &mut Cx) -> Res {
        block_on_sim(plan.seed, run(plan, cx))
    }

    fn shrink(&self, plan: &SessionPlan) -> Vec<SessionPlan> {
        let mut out = Vec::new();
        if let PeerKind::Script(frames) = &plan.peer {
            for c in shrink_vec(frames) {
                let mut p = plan.clone();
                p.peer = PeerKind::Script(c);
                out.push(p);
            }
        }
        for c in shrink_vec(&plan.sut_items) {
            let mut p = plan.clone();
            p.sut_items = c;
            out.push(p);
        }
        for c in shrink_vec(&plan.peer_items) {
            let mut p = plan.clone();
            p.peer_items = c;
            out.push(p);
        }
        if plan.cut_to_sut.is_some() {
            let mut p = plan.clone();
            p.cut_to_sut = None;
            out.push(p);
        }
        if plan.cut_from_sut.is_some() {
            let mut p = plan.clone();
            p.cut_from_sut = None;
            out.push(p);
        }
        if plan.cut_in_frame.is_some() {
            let mut p = plan.clone();
            p.cut_in_frame = None;
            out.push(p);
        }
        if plan.local_fault.is_some() {
            let mut p = plan.clone();
            p.local_fault = None;
            out.push(p);
        }
        if plan.chunk != 4096 {
            let mut p = plan.clone();
            p.chunk = 4096;
            out.push(p);
        }
        if plan.accept != 0 {
            let mut p = plan.clone();
            p.accept = 0;
            out.push(p);
        }
        if !plan.sut_doc_known || !plan.sut_sync {
            let mut p = plan.clone();
            p.sut_doc_known = true;
            p.sut_sync = true;
            out.push(p);
        }
        out
    }

    fn components(&self) -> (Vec<&'static str>, Vec<&'static str>) {
        (
            vec!["net::codec::run_alice", "net::codec::BobState::run / into_outcome", "net::codec::SyncCodec (framing, via FramedRead/FramedWrite)", "actor::SyncHandle (sync_initial_message, sync_process_message, close, set_sync, shutdown)", "sync::Replica::sync_process_message", "store::fs"],
            vec!["QUIC streams (SimPipe: chunking, cut after any byte as EOF or reset, frame-by-frame release by the driver)", "connect_and_sync / handle_connection wrappers (the harness calls run_alice / BobState directly, with the same accept-callback shape)", "scripted peer (frames produced by the real codec, plus raw bytes)", "store actor thread (local task)"],
        )
    }

    fn rule(&self) -> String {
        if self.enumerate {
            return "Enumeration, not sampling: run i is combination i of side under test (initiator / acceptor) x accept-callback outcome (allow, not found, already syncing, internal error) x local fault (none, or replica closed / sync disabled / actor shut down / shutdown queued ahead of the next request / the same with another client's request waiting ahead of the shutdown, placed before frame 0, 1 or 2) x scripted peer (every sequence of up to 2 frames - thorough: 3 - over 13 representative frames: Init known / unknown / carrying an entry, Sync with an entry / empty / made-up ranges, Abort x3, garbage of 5 and of 0 bytes, oversized prefix, truncated frame), then close; store contents and read chunking are drawn. The batch has exactly as many runs as there are combinations.".into();
        }
        "A run picks the side under test (initiator or acceptor), a real counterpart or a scripted peer with up to 6 frames over {Init known/unknown, Sync valid, Sync made-up ranges, Abort x3, garbage, oversized, truncated} followed by close, read chunk sizes 1-4096, an optional cut (EOF or reset) after 0-400 bytes in each direction, or placed inside the k-th frame towards the side under test at 0-5 bytes after its start / 1-4 bytes before its end (a stream that ends or is reset strictly inside a frame must be reported as an error), an optional local fault (close replica / disable sync / shut actor down) before the k-th delivered frame, the accept callback outcome and whether the document is known and syncing. Non-trivial: a fault fired or the peer was scripted.".into()
    }
}

async fn encode_frames(frames: &[Frame], donor_init: &iroh_docs::sync::ProtocolMessage) -> Res<Vec<Vec<u8>>> {
    let w = world();
    let mut out = Vec::new();
    for f in frames {
        let msg = match f {
            Frame::Init { known, carry } => Some(WireMessage::Init {
                namespace: if *known { w.doc_id(0) } else { w.doc_id(3) },
                message: if carry.is_empty() { donor_init.clone() } else { MMessage::carrying(carry.iter().map(|e| { let mut e = e.clone(); e.d = 0; e.signed() }).collect()).to_real() },
            }),
            Frame::SyncCarry { es } => Some(WireMessage::Sync(MMessage::carrying(es.iter().map(|e| { let mut e = e.clone(); e.d = 0; e.signed() }).collect()).to_real())),
            Frame::SyncRanges { n } => {
                let parts = (0..*n)
                    .map(|i| {
                        let x = iroh_docs::sync::RecordIdentifier::new(w.doc_id(0), w.author_id(i % 2), [i]);
                        let y = iroh_docs::sync::RecordIdentifier::new(w.doc_id(0), w.author_id((i + 1) % 2), [i, 7]);
                        MPart::RangeFingerprint(MRangeFp { range: MRange { x, y }, fingerprint: MFp([i; 32]) })
                    })
                    .collect();
                Some(WireMessage::Sync(MMessage { parts }.to_real()))
            }
            Frame::Abort { reason } => Some(WireMessage::Abort { reason: reason_of(*reason) }),
            _ => None,
        };
        let bytes = match (msg, f) {
            (Some(m), _) => {
                let mut wr = WireWriter::new(Vec::<u8>::new());
                wr.send(m).await.map_err(|e| harness(format!("encode frame: {e:#}")))?;
                wr.into_inner()
            }
            (None, Frame::Garbage { len, fill }) => {
                let mut b = (*len as u32).to_be_bytes().to_vec();
                b.extend(std::iter::repeat(*fill).take(*len as usize));
                b
            }
            (None, Frame::Oversized) => {
                let mut b = ((iroh_docs::net::codec_verif::MAX_MESSAGE_SIZE as u32) + 1).to_be_bytes().to_vec();
                b.extend([1, 2, 3]);
                b
            }
            (None, Frame::Truncated { announce, have }) => {
                let mut b = (*announce as u32).to_be_bytes().to_vec();
                b.extend(std::iter::repeat(0x11).take((*have).min(*announce - 1) as usize));
                b
            }
            _ => unreachable!(),
        };
        out.push(bytes);
    }
    Ok(out)
}

#[derive(Debug)]
enum SutResult {
    Alice(Result<SyncOutcome, ConnectError>),
    Bob(Result<iroh_docs::NamespaceId, AcceptError>, SyncOutcome),
}

/// node clocks stand at 1 s; the future bound is 10 min; this is an hour beyond it
const FAR_FUTURE: u64 = 1_000_000 + iroh_docs::MAX_TIMESTAMP_FUTURE_SHIFT + 3_600_000_000;

async fn mk_node(items: &[Ent], known: bool, sync: bool) -> Res<(Node, Option<RefDoc>)> {
    let w = world();
    let mut sut = Sut::new(Backend::Mem)?;
    let mut before = None;
    if known {
        ensure_doc(sut.store(), 0)?;
        for e in items {
            let mut e = e.clone();
            e.d = 0;
            if e.ts >= FAR_FUTURE {
                // written while this node's clock was ahead
                let mut r = sut.store().open_replica(&w.doc_id(0)).map_err(|e| harness(format!("open: {e}")))?;
                iroh_docs::verif::set_wall_clock_micros(Some(e.ts));
                let res = r.insert_remote_entry(e.signed(), crate::ops::PEER, iroh_docs::ContentStatus::Missing).await;
                iroh_docs::verif::set_wall_clock_micros(None);
                drop(r);
                sut.store().close_replica(w.doc_id(0));
                res.map_err(|e| harness(format!("prefill with a far-future entry: {e:#}")))?;
            } else {
                offer(sut.store(), &e, Path::Remote).await?;
            }
        }
        before = Some(dump(sut.store(), 0).map_err(harness)?.doc);
    }
    let node = Node::start(sut.store.take().unwrap());
    if known {
        let mut opts = OpenOpts::default();
        if sync {
            opts = opts.sync();
        }
        node.handle.open(w.doc_id(0), opts).await.map_err(|e| harness(format!("open: {e:#}")))?;
    }
    Ok((node, before))
}

async fn run(plan: &SessionPlan, cx: &mut Cx) -> Res {
    let w = world();
    let ns = w.doc_id(0);
    let sut_peer_id = iroh::SecretKey::from_bytes(&[1u8; 32]).public();
    let other_peer_id = iroh::SecretKey::from_bytes(&[2u8; 32]).public();

    cx.ev("setup", format!("alice={} peer={:?} sut_items={:?} peer_items={:?} chunk={} cuts={:?}/{:?} fault={:?} accept={} known={} sync={}", plan.sut_is_alice, plan.peer, plan.sut_items.iter().map(|e| e.short()).collect::<Vec<_>>(), plan.peer_items.iter().map(|e| e.short()).collect::<Vec<_>>(), plan.chunk, plan.cut_to_sut, plan.cut_from_sut, plan.local_fault, plan.accept, plan.sut_doc_known, plan.sut_sync));
    let (sut_node, sut_before) = mk_node(&plan.sut_items, plan.sut_doc_known, plan.sut_sync).await?;
    let sut_handle = sut_node.handle.clone();

    // pipes: peer -> SUT is released frame by frame by the driver; SUT -> peer likewise (so it can be cut)
    let (p2s_w, p2s_r, p2s) = pipe(plan.chunk, false);
    let (s2p_w, s2p_r, s2p) = pipe(4096, false);
    let sut_out_log: Rc<RefCell<Vec<u8>>> = Rc::new(RefCell::new(Vec::new()));

    // the side under test
    let result: Rc<RefCell<Option<SutResult>>> = Rc::new(RefCell::new(None));
    let accept = plan.accept;
    // the document the accept callback allowed a session for / the document the acceptor names afterwards
    let allowed: Rc<std::cell::Cell<Option<iroh_docs::NamespaceId>>> = Rc::new(std::cell::Cell::new(None));
    let known_ns: Rc<std::cell::Cell<Option<iroh_docs::NamespaceId>>> = Rc::new(std::cell::Cell::new(None));
    let (allowed_c, known_c) = (allowed.clone(), known_ns.clone());
    let sut_task = {
        let result = result.clone();
        let h = sut_handle.clone();
        if plan.sut_is_alice {
            tokio::task::spawn_local(async move {
                let (mut wtr, mut rdr) = (s2p_w, p2s_r);
                let r = run_alice(&mut wtr, &mut rdr, &h, ns, other_peer_id).await;
                *result.borrow_mut() = Some(SutResult::Alice(r));
            })
        } else {
            tokio::task::spawn_local(async move {
                let mut st = BobState::new(other_peer_id);
                let allowed2 = allowed.clone();
                let r = st
                    .run(s2p_w, p2s_r, h, move |ns, _peer| {
                        if accept == 0 {
                            allowed2.set(Some(ns));
                        }
                        std::future::ready(match accept {
                            0 => AcceptOutcome::Allow,
                            r => AcceptOutcome::Reject(reason_of(r - 1)),
                        })
                    })
                    .await;
                // as handle_connection does: the document and the outcome are collected whatever `run` returned
                known_ns.set(st.namespace());
                let outcome = st.into_outcome();
                *result.borrow_mut() = Some(SutResult::Bob(r, outcome));
            })
        }
    };

    // the other side
    let mut script_frames: Vec<Vec<u8>> = Vec::new();
    let mut script_desc: Vec<Frame> = Vec::new();
    let mut peer_node: Option<Node> = None;
    let peer_result: Rc<RefCell<Option<Result<SyncOutcome, String>>>> = Rc::new(RefCell::new(None));
    let mut peer_task = None;
    let mut s2p_reader_keep = None;
    match &plan.peer {
        PeerKind::Real => {
            let (node, _) = mk_node(&plan.peer_items, true, true).await?;
            let h = node.handle.clone();
            let pr = peer_result.clone();
            peer_task = Some(if plan.sut_is_alice {
                tokio::task::spawn_local(async move {
                    let mut st = BobState::new(sut_peer_id);
                    let r = st.run(p2s_w, s2p_r, h, |_n, _p| std::future::ready(AcceptOutcome::Allow)).await;
                    let ok = r.is_ok();
                    let out = std::panic::catch_unwind(std::panic::AssertUnwindSafe(|| st.into_outcome())).unwrap_or_default();
                    *pr.borrow_mut() = Some(if ok { Ok(out) } else { Err("peer failed".into()) });
                })
            } else {
                tokio::task::spawn_local(async move {
                    let (mut wtr, mut rdr) = (p2s_w, s2p_r);
                    let r = run_alice(&mut wtr, &mut rdr, &h, ns, sut_peer_id).await;
                    *pr.borrow_mut() = Some(r.map_err(|e| format!("{e:#}")));
                })
            });
            peer_node = Some(node);
        }
        PeerKind::Script(frames) => {
            // a donor store provides a valid initial message
            let mut donor = Sut::new(Backend::Mem)?;
            ensure_doc(donor.store(), 0)?;
            for e in &plan.peer_items {
                let mut e = e.clone();
                e.d = 0;
                offer(donor.store(), &e, Path::Remote).await?;
            }
            let init = {
                let mut r = donor.store().open_replica(&ns).map_err(|e| harness(format!("{e}")))?;
                r.sync_initial_message().map_err(|e| harness(format!("{e:#}")))?
            };
            // a truncated or oversized frame swallows whatever follows: it ends the script
            let end = frames.iter().position(|f| matches!(f, Frame::Truncated { .. } | Frame::Oversized)).map(|i| i + 1).unwrap_or(frames.len());
            let frames = &frames[..end];
            script_frames = encode_frames(frames, &init).await?;
            script_desc = frames.to_vec();
            for f in &script_frames {
                p2s.inject(f);
            }
            drop(p2s_w);
            p2s.close_writer();
            s2p_reader_keep = Some(s2p_r);
            cx.fault("scripted_peer");
        }
    }

    // driver
    let mut delivered_frames = 0usize;
    let mut to_sut_bytes = 0usize;
    let mut from_sut_bytes = 0usize;
    let mut must_err: Option<String> = None;
    let mut saw_init = false;
    let mut idle = 0;
    let mut fault_done = false;
    let mut returned_store: Option<iroh_docs::store::Store> = None;
    // a shutdown that was queued but not awaited: the session's next request lands behind it
    let mut queue_shutdown = false;
    let mut queue_other_first = false;
    let mut other_pending: Option<std::pin::Pin<Box<dyn std::future::Future<Output = ()>>>> = None;
    let mut pending_shutdown: Option<std::pin::Pin<Box<dyn std::future::Future<Output = anyhow::Result<iroh_docs::store::Store>>>>> = None;
    let mut cut_to_done = false;
    let mut cut_from_done = false;
    let mut rounds = 0;
    loop {
        barrier().await;
        cx.sim_ms += 1;
        rounds += 1;
        let mut progressed = false;
        if sut_task.is_finished() {
            break;
        }
        if s2p.held() > 4 << 20 || p2s.held() > 4 << 20 {
            return Err(Violation::new("hang/message-blowup", "the session produces messages of several megabytes for a handful of entries".to_string()));
        }
        // SUT -> peer
        if !cut_from_done {
            let held = s2p.held();
            if held > 0 {
                let mut n = held;
                if let Some((budget, reset)) = plan.cut_from_sut {
                    if from_sut_bytes + n >= budget {
                        n = budget.saturating_sub(from_sut_bytes);
                        let bytes = s2p.held_bytes();
                        sut_out_log.borrow_mut().extend_from_slice(&bytes[..n]);
                        s2p.release(n);
                        if reset { s2p.reset() } else { s2p.cut_eof() }
                        cx.fault(if reset { "stream_reset_from_sut" } else { "stream_cut_from_sut" });
                        cut_from_done = true;
                        from_sut_bytes += n;
                        progressed = true;
                        n = 0;
                    }
                }
                if n > 0 {
                    let bytes = s2p.held_bytes();
                    sut_out_log.borrow_mut().extend_from_slice(&bytes[..n]);
                    s2p.release(n);
                    from_sut_bytes += n;
                    progressed = true;
                }
            }
            if s2p.release_eof_if_done() {
                progressed = true;
            }
        }
        // peer -> SUT: one frame per round
        if !cut_to_done {
            let held = p2s.held_bytes();
            if !held.is_empty() {
                let (n, complete) = match first_frame_len(&held) {
                    Some(n) => (n, true),
                    None => {
                        if p2s.writer_closed() { (held.len(), false) } else if held.len() >= 4 && u32::from_be_bytes([held[0], held[1], held[2], held[3]]) as usize > 1 << 30 { (held.len(), false) } else { (0, false) }
                    }
                };
                if n > 0 {
                    // local fault before this frame?
                    if let Some((k, kind)) = plan.local_fault {
                        if !fault_done && k == delivered_frames {
                            fault_done = true;
                            match kind {
                                0 => {
                                    while !sut_handle.close(ns).await.map_err(|e| harness(format!("close: {e:#}")))? {}
                                    cx.fault("local_replica_closed_mid_session");
                                }
                                1 => {
                                    let _ = sut_handle.set_sync(ns, false).await;
                                    cx.fault("local_sync_disabled_mid_session");
                                }
                                2 => {
                                    returned_store = sut_handle.shutdown().await.ok();
                                    cx.fault("local_actor_shutdown_mid_session");
                                }
                                3 => {
                                    queue_shutdown = true;
                                }
                                _ => {
                                    // as 3, but another client's request is already waiting in the
                                    // inbox ahead of the shutdown
                                    queue_shutdown = true;
                                    queue_other_first = true;
                                }
                            }
                            cx.ev("local-fault", format!("{kind} before frame {delivered_frames}"));
                        }
                    }
                    let mut rel = n;
                    let mut cut_now = None;
                    if let Some((budget, reset)) = plan.cut_to_sut {
                        if to_sut_bytes + rel >= budget {
                            rel = budget.saturating_sub(to_sut_bytes);
                            cut_now = Some(reset);
                        }
                    }
                    if let (Some((k, off, reset)), None) = (plan.cut_in_frame, cut_now) {
                        if k == delivered_frames {
                            rel = if off >= 0 { (off as usize).min(n) } else { n.saturating_sub((-off) as usize) };
                            cut_now = Some(reset);
                        }
                    }
                    p2s.release(rel);
                    if queue_shutdown {
                        queue_shutdown = false;
                        if queue_other_first {
                            queue_other_first = false;
                            let h3 = sut_handle.clone();
                            let mut fut: std::pin::Pin<Box<dyn std::future::Future<Output = ()>>> = Box::pin(async move { let _ = h3.get_state(ns).await; });
                            let waker = futures_noop_waker();
                            let mut cxp = std::task::Context::from_waker(&waker);
                            if fut.as_mut().poll(&mut cxp).is_pending() {
                                other_pending = Some(fut);
                            }
                            cx.fault("another_request_waiting_ahead_of_the_queued_shutdown");
                        }
                        // The frame is released first (the session task is woken first), then the
                        // shutdown is put into the actor's inbox without waiting for it: the
                        // session reads the frame and sends its next request into the inbox
                        // behind the shutdown before the actor gets to run.
                        {
                            {
                                    let h2 = sut_handle.clone();
                                    let mut fut: std::pin::Pin<Box<dyn std::future::Future<Output = anyhow::Result<iroh_docs::store::Store>>>> = Box::pin(async move { h2.shutdown().await });
                                    let waker = futures_noop_waker();
                                    let mut cxp = std::task::Context::from_waker(&waker);
                                    match fut.as_mut().poll(&mut cxp) {
                                        std::task::Poll::Ready(r) => returned_store = r.ok(),
                                        std::task::Poll::Pending => pending_shutdown = Some(fut),
                                    }
                                    cx.fault("local_actor_shutdown_queued_ahead_of_session_request");
                            }
                        }
                    }
                    to_sut_bytes += rel;
                    progressed = true;
                    if let Some(reset) = cut_now {
                        if reset { p2s.reset() } else { p2s.cut_eof() }
                        cx.fault(if reset { "stream_reset_to_sut" } else { "stream_cut_to_sut" });
                        cut_to_done = true;
                        // The side under test is blocked on its read at this point (one frame per
                        // round, quiescence in between). A stream that ends strictly inside a
                        // frame, or that is reset before the frame is complete, cannot be taken
                        // for a clean end of the session: it must be reported as an error.
                        if rel < n && (reset || rel > 0) {
                            cx.fault(if reset { "stream_reset_inside_frame_to_sut" } else { "stream_cut_inside_frame_to_sut" });
                            if rel == 4 { cx.probe("stream_cut_right_after_length_prefix"); }
                            if must_err.is_none() {
                                must_err = Some(if reset { format!("a connection reset after {rel} of the {n} bytes of frame {delivered_frames}") } else { format!("an end of stream after {rel} of the {n} bytes of frame {delivered_frames}") });
                            }
                        }
                    } else if complete {
                        // classify scripted frames: a complete protocol-violating frame handed to a
                        // SUT that is waiting for input must make it fail
                        if let Some(f) = script_desc.get(delivered_frames) {
                            let invalid = if plan.sut_is_alice {
                                !matches!(f, Frame::SyncCarry { .. } | Frame::SyncRanges { .. })
                            } else {
                                match f {
                                    Frame::Init { .. } => saw_init,
                                    Frame::SyncCarry { .. } | Frame::SyncRanges { .. } => !saw_init,
                                    _ => true,
                                }
                            };
                            if matches!(f, Frame::Init { .. }) {
                                saw_init = true;
                            }
                            if invalid && must_err.is_none() {
                                must_err = Some(format!("{f:?} as frame {delivered_frames}"));
                            }
                        }
                        delivered_frames += 1;
                        cx.ev("deliver", format!("frame {delivered_frames} {n}B"));
                    } else {
                        cx.ev("deliver-partial", format!("{rel}B"));
                        if must_err.is_none() {
                            must_err = Some("a truncated frame followed by close".into());
                        }
                    }
                }
            }
            if p2s.held() == 0 && p2s.release_eof_if_done() {
                progressed = true;
                cx.ev("eof-to-sut", "");
            }
        }
        if progressed {
            idle = 0;
        } else {
            idle += 1;
            if idle == 10 {
                // nothing in flight; give timers a chance (there are none in the protocol)
                tokio::time::sleep(Duration::from_secs(60)).await;
                cx.sim_ms += 60_000;
            }
            if idle > 20 {
                let side = if plan.sut_is_alice { "initiator" } else { "acceptor" };
                let state = format!("eof_to_sut={} peer_task_done={:?} delivered_frames={delivered_frames}", p2s.eof_released(), peer_task.as_ref().map(|t| t.is_finished()));
                return Err(Violation::new(format!("hang/{side}"), format!("the {side} never finishes although nothing is in flight any more ({state})")));
            }
        }
        if rounds > 2000 {
            return Err(harness("session driver exceeded 2000 rounds"));
        }
    }
    let _ = sut_task.await;
    drop(other_pending);
    // what the SUT wrote last is still held by the pipe
    if !cut_from_done {
        let bytes = s2p.held_bytes();
        sut_out_log.borrow_mut().extend_from_slice(&bytes);
    }
    drop(s2p_reader_keep);
    // let the real peer finish, too
    for _ in 0..50 {
        if peer_task.as_ref().map(|t| t.is_finished()).unwrap_or(true) {
            break;
        }
        barrier().await;
        let n = p2s.held();
        p2s.release(n);
        p2s.release_eof_if_done();
        let n = s2p.held();
        s2p.release(n);
        s2p.release_eof_if_done();
    }
    if let Some(t) = peer_task {
        t.abort();
    }
    let res = result.borrow_mut().take();
    let Some(res) = res else {
        // the SUT task ended without a result: it panicked (reported through the panic hook)
        return Ok(());
    };
    cx.ev("result", match &res { SutResult::Alice(r) => format!("alice ok={}", r.is_ok()), SutResult::Bob(r, o) => format!("bob ok={} sent={} recv={}", r.is_ok(), o.num_sent, o.num_recv) });

    let (ok, declined_abort) = match &res {
        SutResult::Alice(r) => (r.is_ok(), false),
        SutResult::Bob(r, _) => (r.is_ok(), matches!(r, Err(AcceptError::Abort { .. }))),
    };
    // once the accept callback has allowed a session for a document, the acceptor must be able to
    // say which document its outcome is about, however the session ends (the caller frees the
    // slot of that document and peer with it)
    if let (SutResult::Bob(..), Some(ns_allowed)) = (&res, allowed_c.get()) {
        if known_c.get() != Some(ns_allowed) {
            return Err(Violation::new("outcome/document-unknown-after-allow", format!("the accept callback allowed a session for the document, the acceptor finished (ok={ok}) but names {:?} as the document of its outcome", known_c.get().map(|n| n.fmt_short().to_string()))));
        }
    }
    if let Some(why) = &must_err {
        if ok {
            let side = if plan.sut_is_alice { "initiator" } else { "acceptor" };
            return Err(Violation::new(format!("accepted-invalid-frame/{side}"), format!("the {side} finished with success although it was handed {why}")));
        }
    }
    // remote abort must be reported as such by the initiator
    if plan.sut_is_alice {
        if let (Some(Frame::Abort { .. }), SutResult::Alice(r)) = (script_desc.first(), &res) {
            if delivered_frames >= 1 && plan.local_fault.map(|(k, _)| k > 0).unwrap_or(true) && plan.cut_from_sut.is_none() && !matches!(r, Err(ConnectError::RemoteAbort(_))) && plan.sut_doc_known && plan.sut_sync {
                return Err(Violation::new("abort/not-reported", format!("the peer answered the request with Abort, the initiator reported {r:?}")));
            }
        }
    }
    // declined request: abort frame sent, store untouched
    if let Some(fut) = pending_shutdown.take() {
        match tokio::time::timeout(Duration::from_secs(30), fut).await {
            Ok(r) => returned_store = r.ok(),
            Err(_) => return Err(Violation::new("hang/shutdown", "a queued shutdown of the store actor got no reply within 30 virtual seconds".to_string())),
        }
    }
    let stop_store = match returned_store {
        Some(s) => Some(s),
        None => sut_node.stop().await.ok(),
    };
    if !plan.sut_is_alice && plan.accept != 0 {
        // the callback declines every request for a known or unknown document
        if saw_init_delivered(&script_desc, delivered_frames, &plan.peer) {
            if ok {
                return Err(Violation::new("declined/succeeded", "the accept callback declined the request but the acceptor reports success".to_string()));
            }
            if declined_abort && plan.cut_from_sut.is_none() {
                // an Abort frame must have gone out
                let bytes = sut_out_log.borrow().clone();
                let mut rd = WireReader::new(&bytes[..]);
                let mut saw_abort = false;
                while let Some(Ok(m)) = rd.next().await {
                    if matches!(m, WireMessage::Abort { .. }) {
                        saw_abort = true;
                    }
                }
                if !saw_abort {
                    return Err(Violation::new("no-abort-frame/declined", "the request was declined but no Abort frame was sent to the peer".to_string()));
                }
            }
            if let (Some(mut st), Some(before)) = (stop_store, sut_before.as_ref()) {
                let after = dump(&mut st, 0).map_err(harness)?.doc;
                if &after != before {
                    return Err(Violation::new("declined-changed-store/entries", format!("a declined request changed the store: before {} after {}", before.short(), after.short())));
                }
            }
            cx.probe("request_declined");
        }
    } else if let (PeerKind::Real, true, false) = (&plan.peer, ok, cut_to_done || cut_from_done) {
        // (a transport that accepts bytes, drops them and then signals a clean end of stream
        // cannot be detected by either end - the protocol ends a session by closing the stream -
        // so mirrored counts are only demanded when no cut fired)
        // mutual success: counts mirror
        let pr = peer_result.borrow_mut().take();
        if let Some(Ok(po)) = pr {
            let so = match &res {
                SutResult::Alice(Ok(o)) => o.clone(),
                SutResult::Bob(_, o) => o.clone(),
                _ => unreachable!(),
            };
            if so.num_sent != po.num_recv || so.num_recv != po.num_sent {
                return Err(Violation::new("counts/mismatch", format!("both sides succeeded but side under test sent={} recv={}, peer sent={} recv={}", so.num_sent, so.num_recv, po.num_sent, po.num_recv)));
            }
            cx.probe("mutual_success");
            if plan.sut_items.iter().chain(plan.peer_items.iter()).any(|e| e.ts >= FAR_FUTURE) {
                cx.probe("mutual_success_with_an_entry_beyond_the_future_bound");
            }
            if so.num_sent + so.num_recv >= 8 {
                cx.probe("mutual_success_moving_8_or_more_entries");
            }
        }
    }
    if let Some(n) = peer_node {
        let _ = n.stop().await;
    }
    Ok(())
}

fn futures_noop_waker() -> std::task::Waker {
    use std::task::{RawWaker, RawWakerVTable, Waker};
    fn clone(_: *const ()) -> RawWaker {
        RawWaker::new(std::ptr::null(), &VTABLE)
    }
    fn noop(_: *const ()) {}
    static VTABLE: RawWakerVTable = RawWakerVTable::new(clone, noop, noop, noop);
    unsafe { Waker::from_raw(RawWaker::new(std::ptr::null(), &VTABLE)) }
}

fn saw_init_delivered(script: &[Frame], delivered: usize, peer: &PeerKind) -> bool {
    match peer {
        PeerKind::Real => true,
        PeerKind::Script(_) => delivered >= 1 && matches!(script.first(), Some(Frame::Init { .. })),
    }
}
