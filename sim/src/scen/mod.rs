pub mod actor;
pub mod crash;
pub mod docs;
pub mod forge;
pub mod offer;
pub mod pair;
pub mod query;
