pub mod offer;
