pub mod forge;
pub mod offer;
pub mod pair;
