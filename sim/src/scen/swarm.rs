//! Scenario `swarm` (C04): 2-5 nodes (SimDisk + store + real store actor, own skewed wall clock)
//! accept local writes and deletions, exchange them by an unreliable broadcast (drop, duplicate,
//! reorder, partition), run reconciliation sessions over SimPipes that may be cut at any frame,
//! restart cleanly or crash (L1/L2). Then faults stop and complete sessions along a random
//! spanning tree must bring all replicas to the merge of what they held.

use std::{cell::RefCell, collections::BTreeSet, rc::Rc};

use iroh_docs::{
    actor::OpenOpts,
    engine::verif::Op,
    net::{
        codec_verif::{run_alice, BobState},
        AcceptOutcome,
    },
    store::Store,
    ContentStatus, Event, SyncOutcome,
};
use serde::{Deserialize, Serialize};

use crate::{
    disk::{Loss, SimDisk},
    model::RefDoc,
    node::Node,
    pipe::{first_frame_len, pipe, PipeCtl},
    rng::Rng,
    runner::{barrier, block_on_sim, shrink_vec, Cx, Res, Scenario, Tier, Violation},
    sut::{dump, harness},
    world::{content, ent_of, hexbytes, world, Ent},
};

pub struct Swarm {
    /// clock skew far beyond the ten-minute future bound: entries of a fast node are refused by
    /// the others until their clocks catch up, so only the safety oracles apply (nothing
    /// invented, every node join-closed, closing sessions terminate)
    pub big_skew: bool,
    /// C12: the same histories, judged only on what the nodes' subscribers are told about
    /// entries that reach them from peers (the convergence oracles are C04's)
    pub events_only: bool,
}

const BASE: u64 = 1_700_000_000_000_000;

#[derive(Serialize, Deserialize, Clone, Debug)]
pub enum SStep {
    Write { n: u8, a: u8, #[serde(with = "hexbytes")] k: Vec<u8>, c: u8 },
    Delete { n: u8, a: u8, #[serde(with = "hexbytes")] k: Vec<u8> },
    Tick { n: u8, dt: u32 },
    /// deliver the i-th pending broadcast message (index modulo what is pending)
    GossipDeliver { i: u16 },
    GossipDrop { i: u16 },
    /// deliver it but keep it pending (duplicate)
    GossipDup { i: u16 },
    Partition { mask: u8 },
    Heal,
    SessionStart { a: u8, b: u8 },
    /// release up to `frames` frames of session `s` (index modulo open sessions)
    SessionAdvance { s: u8, frames: u8 },
    SessionCut { s: u8, reset: bool },
    Restart { n: u8, kind: u8 },
    Advance { ms: u32 },
    /// `count` local writes of distinct keys of one length on node n whose broadcasts are all lost
    /// (the node was offline while writing): gives sessions enough to do that a cut leaves them half way
    Bulk { n: u8, a: u8, count: u8, klen: u8, first: u16 },
}

#[derive(Serialize, Deserialize, Clone, Debug)]
pub struct SwarmPlan {
    pub seed: u64,
    pub nodes: u8,
    /// clock skew of each node in seconds (|skew| <= 240)
    pub skew: Vec<i32>,
    pub steps: Vec<SStep>,
    /// closing phase: order of spanning-tree edges as (child, parent-choice) seeds
    pub tree: Vec<u8>,
    /// bit i: node i holds the document read-only (it cannot write, but receives and relays)
    #[serde(default)]
    pub read_only: u8,
}

impl Scenario for Swarm {
    type Plan = SwarmPlan;
    fn name(&self) -> String {
        if self.events_only { "swarm-events".into() } else if self.big_skew { "swarm-bigskew".into() } else { "swarm".into() }
    }

    fn gen(&self, rng: &mut Rng, tier: Tier) -> SwarmPlan {
        let nodes = rng.range(2, tier.pick(4, 5)) as u8;
        let n = rng.urange(8, tier.pick(40, 60));
        let mut steps = Vec::new();
        let crashy = rng.chance(1, 2);
        if rng.chance(1, 2) {
            for nd in 0..nodes {
                if rng.chance(2, 3) {
                    steps.push(SStep::Bulk { n: nd, a: rng.below(2) as u8, count: rng.range(4, tier.pick(24, 40)) as u8, klen: rng.range(2, 4) as u8, first: rng.below(1296) as u16 });
                }
            }
        }
        for _ in 0..n {
            let nd = rng.below(nodes as u64) as u8;
            let key = |rng: &mut Rng| crate::world::gen_key(rng, 3);
            let s = match rng.below(40) {
                0..=9 => SStep::Write { n: nd, a: rng.below(2) as u8, k: key(rng), c: rng.range(1, 3) as u8 },
                10..=13 => SStep::Delete { n: nd, a: rng.below(2) as u8, k: key(rng) },
                14..=15 => SStep::Tick { n: nd, dt: rng.range(1, 2_000_000) as u32 },
                16..=21 => SStep::GossipDeliver { i: rng.below(64) as u16 },
                22..=23 => SStep::GossipDrop { i: rng.below(64) as u16 },
                24 => SStep::GossipDup { i: rng.below(64) as u16 },
                25 => SStep::Partition { mask: rng.below(1 << nodes) as u8 },
                26 => SStep::Heal,
                27..=29 => {
                    let b = (nd + 1 + rng.below(nodes as u64 - 1) as u8) % nodes;
                    SStep::SessionStart { a: nd, b }
                }
                30..=34 => SStep::SessionAdvance { s: rng.below(4) as u8, frames: rng.range(1, 4) as u8 },
                35 => SStep::SessionCut { s: rng.below(4) as u8, reset: rng.chance(1, 2) },
                // 0 orderly shutdown, 1 crash keeping all writes, 2 crash keeping synced writes only,
                // 3 the process ends without shutting the actor down but destructors run
                36..=37 => SStep::Restart { n: nd, kind: if crashy { rng.below(4) as u8 } else { *rng.pick(&[0u8, 0, 3]) } },
                _ => SStep::Advance { ms: *rng.pick(&[10u32, 499, 501, 1500]) },
            };
            steps.push(s);
        }
        SwarmPlan {
            seed: rng.next_u64(),
            nodes,
            skew: (0..nodes).map(|_| if self.big_skew { rng.range(0, 7200) as i32 - 3600 } else { rng.range(0, 480) as i32 - 240 }).collect(),
            steps,
            tree: (0..16).map(|_| rng.below(256) as u8).collect(),
            // a quarter of the runs with three or more nodes: one node is a read-only relay
            read_only: if nodes >= 3 && rng.chance(1, 4) { 1 << rng.below(nodes as u64) } else { 0 },
        }
    }

    fn exec(&self, plan: &SwarmPlan, cx: &mut Cx) -> Res {
        block_on_sim(plan.seed, run(plan, cx, self.big_skew, self.events_only))
    }

    fn shrink(&self, plan: &SwarmPlan) -> Vec<SwarmPlan> {
        let mut out = Vec::new();
        for c in shrink_vec(&plan.steps) {
            let mut p = plan.clone();
            p.steps = c;
            out.push(p);
        }
        if plan.nodes > 2 {
            let mut p = plan.clone();
            p.nodes -= 1;
            p.skew.truncate(p.nodes as usize);
            p.read_only &= (1 << p.nodes) - 1;
            p.steps.retain(|s| match s {
                SStep::Write { n, .. } | SStep::Delete { n, .. } | SStep::Tick { n, .. } | SStep::Restart { n, .. } | SStep::Bulk { n, .. } => *n < p.nodes,
                SStep::SessionStart { a, b } => *a < p.nodes && *b < p.nodes,
                _ => true,
            });
            out.push(p);
        }
        if plan.read_only != 0 {
            let mut p = plan.clone();
            p.read_only = 0;
            out.push(p);
        }
        if plan.skew.iter().any(|s| *s != 0) {
            let mut p = plan.clone();
            p.skew.iter_mut().for_each(|s| *s = 0);
            out.push(p);
        }
        out
    }

    fn components(&self) -> (Vec<&'static str>, Vec<&'static str>) {
        (
            vec!["actor::SyncHandle / Actor (insert_local, delete_prefix, insert_remote, sync sessions)", "net::codec::run_alice / BobState (sessions between nodes)", "sync::Replica, ranger (reconciliation, newest-wins, prefix deletion)", "store::fs on redb", "engine::live::Op (gossip message type, postcard)"],
            vec!["iroh-gossip delivery and the Op::Put branch of gossip::receive_loop (SimNet: drop, duplicate, reorder, partition; decode Op, call insert_remote)", "QUIC streams (SimPipe, cut at any frame, EOF or reset)", "disk (SimDisk: clean restart, crash L1/L2)", "per-node wall clocks (skew up to 4 min, ticks)", "virtual time (flush timers)", "the live actor's own dial decisions (C11's subject)"],
        )
    }

    fn rule(&self) -> String {
        if self.events_only {
            return "The histories of the swarm scenario (2-5 real store actors with subscribers, local writes and deletions, lossy / duplicating / reordering broadcast, real sessions over SimPipes advanced frame by frame and cut, restarts and crashes), judged only on what every node's subscriber is told about entries that reach it from a peer, by broadcast or inside a session: the document, an entry some node wrote, the providing peer, the provider's content status (every node runs with a content-status callback that is a fixed function of the content hash, as the engine installs one backed by its blob store) and the download flag of the default policy.".into();
        }
        "Every node runs with a content-status callback (a fixed function of the content hash) and a subscriber; every remote-insert event is checked for document, provider, provider's content status and download flag. A run is 8-60 steps over 2-5 nodes with clock skew within ±4 min (in a quarter of the runs with three or more nodes one of them holds the document read-only: it cannot write but receives and relays): in half of the runs most nodes first write 4-40 distinct keys of one length whose broadcasts are all lost (so that sessions have dozens of entries to move and a cut leaves them half way); then local writes and prefix deletions, broadcast of each local insert to the other nodes through SimNet (deliver in any order, drop, duplicate, partition/heal), sessions between pairs advanced frame by frame and cut (EOF/reset) at any frame, orderly restarts, restarts in which the actor is dropped without a shutdown (the store's destructor runs) and (in half of the runs) crashes with loss model L1/L2, virtual-time advances; then a closing phase of complete sessions along a random spanning tree until one round is silent (budget nodes+1 rounds). Non-trivial: at least one fault kind fired.".into()
    }
}

struct SimNode {
    node: Option<Node>,
    disk: SimDisk,
    clock: u64,
    events: async_channel::Receiver<Event>,
    peer_id: iroh::PublicKey,
    /// local writes acknowledged by this node
    acked: Vec<Ent>,
    /// `acked[crash_mark..]` were acknowledged after this node's last unclean crash: no fault can
    /// have taken them away
    crash_mark: usize,
    dirty_crashes: u32,
}

struct Gossip {
    from: u8,
    to: u8,
    bytes: Vec<u8>,
}

struct Sess {
    a: u8,
    b: u8,
    a2b: PipeCtl,
    b2a: PipeCtl,
    ta: tokio::task::JoinHandle<()>,
    tb: tokio::task::JoinHandle<()>,
    res_a: Rc<RefCell<Option<Result<SyncOutcome, String>>>>,
    res_b: Rc<RefCell<Option<Result<SyncOutcome, String>>>>,
    cut: bool,
    /// frames released so far
    frames: std::cell::Cell<u32>,
}

impl Sess {
    fn done(&self) -> bool {
        self.ta.is_finished() && self.tb.is_finished()
    }
    /// release one frame in whichever direction has one; true if something moved
    fn step(&self) -> bool {
        let mut moved = false;
        for p in [&self.a2b, &self.b2a] {
            let held = p.held_bytes();
            if let Some(n) = first_frame_len(&held) {
                p.release(n);
                self.frames.set(self.frames.get() + 1);
                return true;
            } else if !held.is_empty() && p.writer_closed() {
                p.release(held.len());
                moved = true;
            }
            if p.release_eof_if_done() {
                moved = true;
            }
        }
        moved
    }
    fn cut(&mut self, reset: bool) {
        for p in [&self.a2b, &self.b2a] {
            if reset { p.reset() } else { p.cut_eof() }
        }
        self.cut = true;
    }
}

async fn boot(i: u8, clock: u64, image: Option<Vec<u8>>, read_only: bool) -> Res<SimNode> {
    let w = world();
    let ns = w.doc_id(0);
    let disk = match image {
        Some(img) => SimDisk::from_image(img),
        None => SimDisk::new(),
    };
    let fresh = disk.0.lock().unwrap().ops == 0 && disk.image().is_empty();
    let mut store = Store::verif_with_backend(disk.clone()).map_err(|e| Violation::new("open-fails/restart", format!("node {i}: reopening the store failed: {e:#}")))?;
    if fresh {
        let cap = if read_only { iroh_docs::Capability::Read(ns) } else { iroh_docs::Capability::Write(w.docs[0].clone()) };
        store.import_namespace(cap).map_err(|e| harness(format!("{e:#}")))?;
        for a in 0..2 {
            store.import_author(w.authors[a].clone()).map_err(|e| harness(format!("{e:#}")))?;
        }
        store.flush().map_err(|e| harness(format!("{e:#}")))?;
    }
    let node = Node::start_with_status(store);
    node.set_clock(clock);
    let (txe, rxe) = async_channel::bounded::<Event>(4096);
    let peer_id = iroh::SecretKey::from_bytes(&[0xC0 + i; 32]).public();
    node.handle.open(ns, OpenOpts::default().sync().subscribe(txe)).await.map_err(|e| harness(format!("node {i} open: {e:#}")))?;
    Ok(SimNode { node: Some(node), disk, clock, events: rxe, peer_id, acked: vec![], crash_mark: 0, dirty_crashes: 0 })
}

fn start_session(nodes: &[SimNode], a: u8, b: u8) -> Option<Sess> {
    let w = world();
    let ns = w.doc_id(0);
    let ha = nodes[a as usize].node.as_ref()?.handle.clone();
    let hb = nodes[b as usize].node.as_ref()?.handle.clone();
    let (pa, pb) = (nodes[a as usize].peer_id, nodes[b as usize].peer_id);
    let (a2b_w, a2b_r, a2b) = pipe(4096, false);
    let (b2a_w, b2a_r, b2a) = pipe(4096, false);
    let res_a = Rc::new(RefCell::new(None));
    let res_b = Rc::new(RefCell::new(None));
    let (ra, rb) = (res_a.clone(), res_b.clone());
    let ta = tokio::task::spawn_local(async move {
        let (mut wtr, mut rdr) = (a2b_w, b2a_r);
        let r = run_alice(&mut wtr, &mut rdr, &ha, ns, pb).await;
        *ra.borrow_mut() = Some(r.map_err(|e| format!("{e:#}")));
    });
    let tb = tokio::task::spawn_local(async move {
        let mut st = BobState::new(pa);
        let r = st.run(b2a_w, a2b_r, hb, |_n, _p| std::future::ready(AcceptOutcome::Allow)).await;
        let out = st.into_outcome();
        *rb.borrow_mut() = Some(r.map(|_| out).map_err(|e| format!("{e:#}")));
    });
    Some(Sess { a, b, a2b, b2a, ta, tb, res_a, res_b, cut: false, frames: std::cell::Cell::new(0) })
}

/// Run a session to completion; returns (sent+recv on both sides) or an error string.
async fn full_session(nodes: &[SimNode], a: u8, b: u8, cx: &mut Cx) -> Res<Result<usize, String>> {
    let Some(s) = start_session(nodes, a, b) else { return Ok(Err("node down".into())) };
    let mut idle = 0;
    for _ in 0..2000 {
        barrier().await;
        cx.sim_ms += 1;
        if s.done() {
            break;
        }
        if s.a2b.held() > 4 << 20 || s.b2a.held() > 4 << 20 {
            return Err(Violation::new("no-silent-round/message-blowup", format!("a session between nodes {a} and {b} produces messages of several megabytes for a few dozen entries")));
        }
        if s.step() {
            idle = 0;
        } else {
            idle += 1;
            if idle > 30 {
                return Err(Violation::new("no-silent-round/session-hangs", format!("a complete session between nodes {a} and {b} does not finish")));
            }
        }
    }
    if !s.done() {
        return Err(Violation::new("no-silent-round/session-hangs", format!("a complete session between nodes {a} and {b} does not finish")));
    }
    let ra = s.res_a.borrow_mut().take();
    let rb = s.res_b.borrow_mut().take();
    match (ra, rb) {
        (Some(Ok(oa)), Some(Ok(ob))) => Ok(Ok(oa.num_sent + oa.num_recv + ob.num_sent + ob.num_recv)),
        (x, y) => Ok(Err(format!("{:?} / {:?}", x.map(|r| r.map(|o| o.num_recv)), y.map(|r| r.map(|o| o.num_recv))))),
    }
}

async fn run(plan: &SwarmPlan, cx: &mut Cx, big_skew: bool, events_only: bool) -> Res {
    let w = world();
    let ns = w.doc_id(0);
    let n = plan.nodes as usize;
    let mut nodes: Vec<SimNode> = Vec::new();
    for i in 0..n {
        let clock = (BASE as i64 + plan.skew.get(i).copied().unwrap_or(0) as i64 * 1_000_000) as u64;
        nodes.push(boot(i as u8, clock, None, (plan.read_only >> i) & 1 == 1).await?);
    }
    let mut net: Vec<Gossip> = Vec::new();
    let mut partition: u8 = 0; // nodes with bit set are on the other side
    let mut partitioned = false;
    let mut sessions: Vec<Sess> = Vec::new();
    let mut written: BTreeSet<Vec<u8>> = BTreeSet::new();
    let mut any_dirty = false;

    macro_rules! pump_events {
        () => {{
            for i in 0..n {
                while let Ok(ev) = nodes[i].events.try_recv() {
                    if let Event::RemoteInsert { from, entry, should_download, remote_content_status, namespace } = &ev {
                        // what a node is told about an entry that reached it from a peer (by
                        // broadcast or in a session): who provided it, whether to fetch it, and
                        // the provider's content status - every node reports `status_of(hash)`
                        cx.probe("remote_insert_event_checked");
                        let want = crate::node::status_of(&entry.content_hash());
                        let provider_ok = (0..n).any(|j| j != i && nodes[j].peer_id.as_bytes() == from);
                        let problem = if *namespace != ns {
                            Some(format!("names document {namespace:?}"))
                        } else if !written.contains(&postcard::to_stdvec(entry).unwrap()) {
                            Some("carries an entry that no node wrote".to_string())
                        } else if *remote_content_status != want {
                            Some(format!("reports content status {remote_content_status:?}, the providing node said {want:?}"))
                        } else if !provider_ok {
                            Some(format!("names provider {} which is not one of the other nodes", hex::encode(&from[..4])))
                        } else if !*should_download {
                            Some("says the content should not be downloaded although no policy was ever set".to_string())
                        } else {
                            None
                        };
                        if let Some(p) = problem {
                            return Err(Violation::new("event/remote-insert-payload", format!("node {i}: the event for remote entry {:?} {p}", ent_of(0, entry).map(|e| e.short()))));
                        }
                    }
                    if let Event::LocalInsert { entry, .. } = ev {
                        let bytes = postcard::to_stdvec(&Op::Put(entry.clone())).map_err(|e| harness(e.to_string()))?;
                        written.insert(postcard::to_stdvec(&entry).unwrap());
                        if let Some(e) = ent_of(0, &entry) {
                            nodes[i].acked.push(e);
                        }
                        for j in 0..n {
                            if j != i {
                                net.push(Gossip { from: i as u8, to: j as u8, bytes: bytes.clone() });
                            }
                        }
                    }
                }
            }
        }};
    }

    for step in &plan.steps {
        match step {
            SStep::Write { n: i, a, k, c } => {
                let i = (*i as usize) % n;
                let Some(nd) = nodes[i].node.as_ref() else { continue };
                let (hash, len) = content(*c);
                let r = nd.handle.insert_local(ns, w.author_id(*a), k.clone().into(), hash, len).await;
                if r.is_err() && (plan.read_only >> i) & 1 == 1 {
                    cx.probe("write_refused_on_read_only_relay");
                }
                cx.ev("write", format!("n{i} a{a} {} #{c} -> {}", hex::encode(k), r.is_ok()));
                if r.is_ok() {
                    // what was acknowledged is known without asking the node: the entry is signed
                    // deterministically over (key, content, the node's wall clock)
                    let e = Ent { d: 0, a: *a, k: k.clone(), ts: nodes[i].clock, c: *c };
                    written.insert(postcard::to_stdvec(&e.signed()).unwrap());
                    nodes[i].acked.push(e);
                }
            }
            SStep::Delete { n: i, a, k } => {
                let i = (*i as usize) % n;
                let Some(nd) = nodes[i].node.as_ref() else { continue };
                let r = nd.handle.delete_prefix(ns, w.author_id(*a), k.clone().into()).await;
                cx.ev("delete", format!("n{i} a{a} {} -> {}", hex::encode(k), r.is_ok()));
                if r.is_ok() {
                    // an accepted deletion is a write of a deletion marker, whether or not it found
                    // anything to remove on this node: older entries under the prefix that arrive
                    // later must lose against it
                    let e = Ent { d: 0, a: *a, k: k.clone(), ts: nodes[i].clock, c: 0 };
                    written.insert(postcard::to_stdvec(&e.signed()).unwrap());
                    nodes[i].acked.push(e);
                    cx.probe("local_deletion_accepted");
                }
            }
            SStep::Bulk { n: i, a, count, klen, first } => {
                let i = (*i as usize) % n;
                pump_events!();
                let before = net.len();
                let Some(nd) = nodes[i].node.as_ref() else { continue };
                let klen = (*klen).clamp(1, 5) as u32;
                let space = 6u32.pow(klen);
                let mut bulk_acked: Vec<Ent> = Vec::new();
                for j in 0..*count as u32 {
                    let mut v = (*first as u32 + j) % space;
                    let k: Vec<u8> = (0..klen).map(|_| { let d = v % 6; v /= 6; crate::world::ALPHABET[d as usize] }).collect();
                    let c = 1 + (j % 3) as u8;
                    let (hash, len) = content(c);
                    if nd.handle.insert_local(ns, w.author_id(*a), k.clone().into(), hash, len).await.is_ok() {
                        bulk_acked.push(Ent { d: 0, a: *a, k, ts: nodes[i].clock, c });
                    }
                }
                for e in bulk_acked {
                    written.insert(postcard::to_stdvec(&e.signed()).unwrap());
                    nodes[i].acked.push(e);
                }
                pump_events!();
                let lost = net.len() - before;
                net.truncate(before);
                for _ in 0..lost {
                    cx.fault("gossip_dropped");
                }
                cx.probe("bulk_writes_with_lost_broadcasts");
                cx.ev("bulk", format!("n{i} a{a} {count} keys of {klen} bytes"));
            }
            SStep::Tick { n: i, dt } => {
                let i = (*i as usize) % n;
                nodes[i].clock += *dt as u64;
                if let Some(nd) = nodes[i].node.as_ref() {
                    nd.set_clock(nodes[i].clock);
                }
            }
            SStep::GossipDeliver { i } | SStep::GossipDup { i } => {
                if net.is_empty() {
                    continue;
                }
                let idx = *i as usize % net.len();
                let dup = matches!(step, SStep::GossipDup { .. });
                let g = if dup { Gossip { from: net[idx].from, to: net[idx].to, bytes: net[idx].bytes.clone() } } else { net.remove(idx) };
                if idx > 0 {
                    cx.fault("gossip_reordered");
                }
                if dup {
                    cx.fault("gossip_duplicated");
                }
                let blocked = partitioned && ((partition >> g.from) & 1) != ((partition >> g.to) & 1);
                if blocked {
                    cx.fault("gossip_dropped_by_partition");
                    continue;
                }
                // what gossip::receive_loop does with an Op::Put
                let op: Op = postcard::from_bytes(&g.bytes).map_err(|e| harness(format!("op decode: {e}")))?;
                if let (Op::Put(entry), Some(nd)) = (op, nodes[g.to as usize].node.as_ref()) {
                    let from = *nodes[g.from as usize].peer_id.as_bytes();
                    let status = crate::node::status_of(&entry.content_hash());
                    let r = nd.handle.insert_remote(ns, entry, from, status).await;
                    cx.ev("gossip", format!("{}->{} {}", g.from, g.to, r.is_ok()));
                }
            }
            SStep::GossipDrop { i } => {
                if !net.is_empty() {
                    let idx = *i as usize % net.len();
                    net.remove(idx);
                    cx.fault("gossip_dropped");
                }
            }
            SStep::Partition { mask } => {
                partition = *mask;
                partitioned = true;
                cx.fault("partition");
            }
            SStep::Heal => {
                partitioned = false;
            }
            SStep::SessionStart { a, b } => {
                let (a, b) = ((*a as usize % n) as u8, (*b as usize % n) as u8);
                if a == b {
                    continue;
                }
                if partitioned && ((partition >> a) & 1) != ((partition >> b) & 1) {
                    continue;
                }
                if let Some(s) = start_session(&nodes, a, b) {
                    sessions.push(s);
                    cx.ev("session-start", format!("{a}->{b}"));
                }
                barrier().await;
            }
            SStep::SessionAdvance { s, frames } => {
                if sessions.is_empty() {
                    continue;
                }
                let idx = *s as usize % sessions.len();
                for _ in 0..*frames {
                    barrier().await;
                    cx.sim_ms += 1;
                    if !sessions[idx].step() {
                        break;
                    }
                }
                barrier().await;
                if sessions[idx].done() {
                    let s = sessions.remove(idx);
                    cx.ev("session-done", format!("{}->{} cut={}", s.a, s.b, s.cut));
                    if !s.cut {
                        if let Some(Ok(o)) = s.res_a.borrow().as_ref() {
                            if o.num_sent + o.num_recv >= 8 {
                                cx.probe("mid_run_session_moved_8_or_more_entries");
                            }
                        }
                    }
                }
            }
            SStep::SessionCut { s, reset } => {
                if sessions.is_empty() {
                    continue;
                }
                let idx = *s as usize % sessions.len();
                let frames_before = sessions[idx].frames.get();
                sessions[idx].cut(*reset);
                cx.fault(if *reset { "session_reset" } else { "session_cut" });
                if frames_before >= 2 {
                    cx.probe("session_cut_after_2_or_more_frames");
                }
                if frames_before >= 4 {
                    cx.probe("session_cut_after_4_or_more_frames");
                }
                barrier().await;
            }
            SStep::Restart { n: i, kind } => {
                let i = (*i as usize) % n;
                pump_events!();
                let Some(node) = nodes[i].node.take() else { continue };
                let image = match kind {
                    0 => {
                        let store = node.stop().await?;
                        drop(store);
                        cx.fault("clean_restart");
                        nodes[i].disk.image()
                    }
                    3 => {
                        // the actor is dropped, not shut down: the store's destructor runs and must
                        // leave everything acknowledged in the file
                        node.task.abort();
                        drop(node);
                        barrier().await;
                        barrier().await;
                        cx.fault("restart_by_dropping_the_store");
                        nodes[i].disk.image()
                    }
                    k => {
                        let loss = if *k == 1 { Loss::L1 } else { Loss::L2 };
                        let img = nodes[i].disk.crash(loss);
                        node.task.abort();
                        drop(node);
                        barrier().await;
                        nodes[i].dirty_crashes += 1;
                        any_dirty = true;
                        cx.fault(if *k == 1 { "crash_L1" } else { "crash_L2" });
                        img
                    }
                };
                let mut fresh = boot(i as u8, nodes[i].clock, Some(image), (plan.read_only >> i) & 1 == 1).await?;
                fresh.acked = std::mem::take(&mut nodes[i].acked);
                fresh.crash_mark = if matches!(*kind, 1 | 2) { fresh.acked.len() } else { nodes[i].crash_mark };
                fresh.dirty_crashes = nodes[i].dirty_crashes;
                fresh.peer_id = nodes[i].peer_id;
                nodes[i] = fresh;
                cx.ev("restart", format!("n{i} kind={kind}"));
            }
            SStep::Advance { ms } => {
                tokio::time::sleep(std::time::Duration::from_millis(*ms as u64)).await;
                cx.sim_ms += *ms as u64;
                if *ms >= 500 {
                    cx.fault("flush_timer_fired");
                }
            }
        }
        pump_events!();
    }
    pump_events!();
    if events_only {
        for mut s in sessions.drain(..) {
            s.cut(false);
        }
        for nd in nodes.iter_mut() {
            if let Some(n) = nd.node.take() {
                let _ = n.stop().await;
            }
        }
        return Ok(());
    }

    // ---- faults stop ------------------------------------------------------------------------
    for mut s in sessions.drain(..) {
        s.cut(false);
    }
    barrier().await;
    // what every node holds now (stop, dump, restart on the same disk image)
    let mut held_union: Vec<Ent> = Vec::new();
    for i in 0..n {
        let node = nodes[i].node.take().unwrap();
        let mut store = node.stop().await?;
        let d = dump(&mut store, 0).map_err(harness)?;
        if !d.alien.is_empty() {
            return Err(Violation::new("invented/entry", format!("node {i} holds entries nobody wrote: {:?}", d.alien)));
        }
        for e in &d.raw {
            if !written.contains(&postcard::to_stdvec(e).unwrap()) {
                return Err(Violation::new("invented/entry", format!("node {i} holds an entry that no node wrote: {:?}", e.entry())));
            }
        }
        if RefDoc::join(d.doc.entries()) != d.doc {
            return Err(Violation::new("not-join/node-state", format!("node {i} holds a superseded entry: {}", d.doc.short())));
        }
        held_union.extend(d.doc.entries().cloned());
        drop(store);
        let img = nodes[i].disk.image();
        let mut fresh = boot(i as u8, nodes[i].clock, Some(img), (plan.read_only >> i) & 1 == 1).await?;
        fresh.acked = std::mem::take(&mut nodes[i].acked);
        fresh.crash_mark = nodes[i].crash_mark;
        fresh.dirty_crashes = nodes[i].dirty_crashes;
        fresh.peer_id = nodes[i].peer_id;
        nodes[i] = fresh;
    }
    let expected = RefDoc::join(held_union.iter());
    if plan.read_only != 0 {
        cx.probe("read_only_relay_in_swarm");
    }
    if big_skew {
        cx.fault("clock_skew_beyond_future_bound");
    }

    // closing phase: complete sessions along a random spanning tree until a round is silent
    let mut edges: Vec<(u8, u8)> = Vec::new();
    for i in 1..n {
        let parent = plan.tree.get(i).copied().unwrap_or(0) as usize % i;
        let flip = plan.tree.get(i + 5).copied().unwrap_or(0) % 2 == 1;
        edges.push(if flip { (parent as u8, i as u8) } else { (i as u8, parent as u8) });
    }
    let mut silent = false;
    let budget = n + 1;
    for round in 0..budget {
        let mut transferred = 0usize;
        for (a, b) in &edges {
            match full_session(&nodes, *a, *b, cx).await? {
                Ok(t) => transferred += t,
                Err(e) => return Err(Violation::new("no-silent-round/session-failed", format!("a complete session between healthy nodes {a} and {b} failed: {e}"))),
            }
        }
        cx.ev("closing-round", format!("{round} transferred={transferred}"));
        if round == 0 && transferred >= 10 {
            cx.probe("closing_phase_moved_10_or_more_entries");
        }
        if round >= 2 && transferred > 0 {
            cx.probe("closing_phase_needed_3_or_more_rounds");
        }
        if transferred == 0 {
            silent = true;
            break;
        }
    }
    if !silent && !big_skew {
        return Err(Violation::new("no-silent-round/budget", format!("{budget} rounds of complete sessions along a spanning tree of {n} nodes still transfer entries")));
    }
    // final comparison
    let mut finals = Vec::new();
    for i in 0..n {
        let node = nodes[i].node.take().unwrap();
        let mut store = node.stop().await?;
        let d = dump(&mut store, 0).map_err(harness)?;
        finals.push(d.doc);
    }
    if big_skew {
        // safety only: nothing invented, every node join-closed
        for (i, f) in finals.iter().enumerate() {
            if &RefDoc::join(f.entries()) != f {
                return Err(Violation::new("not-join/node-state", format!("node {i} holds a superseded entry: {}", f.short())));
            }
            for e in f.entries() {
                if !written.contains(&postcard::to_stdvec(&e.signed()).unwrap()) {
                    return Err(Violation::new("invented/entry", format!("node {i} holds an entry that no node wrote: {}", e.short())));
                }
            }
        }
        return Ok(());
    }
    for i in 1..n {
        if finals[i] != finals[0] {
            return Err(Violation::new("diverge/final", format!("after the closing phase node 0 holds {} and node {i} holds {}", finals[0].short(), finals[i].short())));
        }
    }
    if finals[0] != expected {
        return Err(Violation::new("not-join/final", format!("all nodes hold {} but the merge of what they held when faults stopped is {}", finals[0].short(), expected.short())));
    }
    if !any_dirty {
        let all: Vec<Ent> = nodes.iter().flat_map(|nd| nd.acked.iter().cloned()).collect();
        let want = RefDoc::join(all.iter());
        if finals[0] != want {
            return Err(Violation::new("not-join/acknowledged-writes", format!("no node crashed, yet the final state {} is not the merge of all acknowledged local writes {}", finals[0].short(), want.short())));
        }
    }
    if any_dirty {
        // a crash may take away what its node had acknowledged before it and not yet made
        // durable or passed on - nothing else: every write acknowledged by a node after its last
        // unclean crash (or by a node that never crashed) must be accounted for in the final state
        let safe: Vec<Ent> = nodes.iter().flat_map(|nd| nd.acked[nd.crash_mark.min(nd.acked.len())..].iter().cloned()).collect();
        if !safe.is_empty() {
            cx.probe("writes_acknowledged_after_the_last_crash_checked");
        }
        let with: RefDoc = RefDoc::join(finals[0].entries().chain(safe.iter()));
        if with != finals[0] {
            return Err(Violation::new("not-join/acknowledged-writes-after-last-crash", format!("the final state {} lacks writes that were acknowledged by nodes after their last unclean crash; with them the merge is {}", finals[0].short(), with.short())));
        }
    }
    cx.state(crate::rng::fnv(finals[0].short().as_bytes()));
    Ok(())
}
