//! Scenario `pair`: two replicas filled to reachable states run a complete reconciliation
//! session through a serialise/deserialise hop (C01), and the same session is repeated over
//! redb-in-memory, SimDisk/file-backed redb and a harness-side ordered map driven by the crate's
//! own reconciliation routine (C08), with direct probes of the storage primitives.

use std::collections::BTreeMap;

use iroh_docs::{
    sync::{ProtocolMessage, Record, RecordIdentifier},
    verif::ranger_ext,
    SignedEntry, SyncOutcome,
};
use serde::{Deserialize, Serialize};

use crate::{
    model::RefDoc,
    msg::{bytes_of, mirror_selfcheck},
    ops::{arm_age, disarm_age, offer, Path},
    rng::Rng,
    runner::{block_on_sim, shrink_vec, Cx, Res, Scenario, Tier, Violation},
    sut::{compare, dump, ensure_doc, harness, Backend, Sut},
    world::{gen_ent, gen_key, world, Ent, GenCfg, hexbytes},
};

#[derive(Clone, Copy, PartialEq, Eq, Debug)]
pub enum Mode {
    /// C01
    Converge,
    /// C08
    Differential,
}

pub struct Pair {
    pub mode: Mode,
    /// sets of 30-250 entries per side (several levels of range splitting under every configuration)
    pub large: bool,
}

thread_local! {
    /// which document of the store is being reconciled in the current run
    static SYNC_DOC: std::cell::Cell<u8> = const { std::cell::Cell::new(0) };
}
fn sd() -> u8 {
    SYNC_DOC.with(|c| c.get())
}

#[derive(Serialize, Deserialize, Clone, Debug)]
pub struct IdSpec {
    pub a: u8,
    #[serde(with = "hexbytes")]
    pub k: Vec<u8>,
    /// use `RecordIdentifier::default()` instead
    pub default: bool,
    /// 0: the reconciled document; 1: namespace all 0xFF; 2..=5: the namespace of document
    /// (foreign - 2) of the same store (a peer may send any bounds)
    #[serde(default)]
    pub foreign: u8,
}

impl IdSpec {
    fn id(&self) -> RecordIdentifier {
        if self.default {
            RecordIdentifier::default()
        } else {
            let w = world();
            match self.foreign {
                0 => RecordIdentifier::new(w.doc_id(sd()), w.author_id(self.a), &self.k),
                1 => RecordIdentifier::new(iroh_docs::NamespaceId::from(&[0xFFu8; 32]), w.author_id(self.a), &self.k),
                n => RecordIdentifier::new(w.doc_id((n - 2) % 4), w.author_id(self.a), &self.k),
            }
        }
    }
}

#[derive(Serialize, Deserialize, Clone, Debug)]
pub enum Probe {
    Range { x: IdSpec, y: IdSpec },
    Prefixes { key: IdSpec },
    RemovePrefix { prefix: IdSpec, max_ts: u64 },
}

#[derive(Serialize, Deserialize, Clone, Debug)]
pub struct PairPlan {
    pub seed: u64,
    pub backend_a: Backend,
    pub backend_b: Backend,
    pub max_set_size: usize,
    pub split_factor: usize,
    pub a_items: Vec<Ent>,
    pub b_items: Vec<Ent>,
    pub initiator_is_a: bool,
    /// age the open transaction at the n-th internal store call while processing message i
    pub ages: Vec<(usize, u32)>,
    pub probes: Vec<Probe>,
    /// index of the document that is reconciled (the stores may hold other documents too)
    #[serde(default)]
    pub sync_doc: u8,
    /// entries of OTHER documents living in the same real stores (never in the ordered map)
    #[serde(default)]
    pub other_docs: Vec<Ent>,
    /// an earlier life of the reconciled document in the same long-lived store (bit 0: side A,
    /// bit 1: side B): these entries are written, the document is looked at the way a session
    /// looks at it, then it is closed, removed and created again before the real fill
    #[serde(default)]
    pub prelife: Vec<Ent>,
    #[serde(default)]
    pub prelife_sides: u8,
}

impl Scenario for Pair {
    type Plan = PairPlan;

    fn name(&self) -> String {
        match self.mode {
            Mode::Converge if self.large => "pair-large".into(),
            Mode::Converge => "pair".into(),
            Mode::Differential => "pair-diff".into(),
        }
    }

    fn gen(&self, rng: &mut Rng, tier: Tier) -> PairPlan {
        let mut g = GenCfg::swarm(rng);
        g.authors = crate::world::gen_author_count(rng, 3);
        let max = tier.pick(12, 24);
        // shapes: both random / one empty / identical / one superset
        let shape = rng.below(10);
        let (na, nb) = if self.large {
            g.authors = rng.range(1, 4) as u8;
            g.max_key_len = rng.urange(3, 5);
            g.ts_values = rng.range(4, 40);
            g.marker_pct = *rng.pick(&[2, 5, 10]);
            // a fifth of the large runs: several hundred entries on one side (more than any plausible
            // per-message or per-part limit), against a few, none, or as many on the other
            if rng.chance(1, 5) {
                g.max_key_len = rng.urange(4, 5);
                let big = rng.urange(260, 700);
                let other = *rng.pick(&[0usize, 1, 2, 40, 300]);
                if rng.chance(1, 2) { (big, other) } else { (other, big) }
            } else {
                (rng.urange(30, 250), rng.urange(if shape == 5 { 0 } else { 30 }, if shape == 5 { 3 } else { 250 }))
            }
        } else {
            (rng.urange(0, max), rng.urange(0, max))
        };
        // large sets: keys of one fixed length, so that entries do not prune each other (an entry
        // at a short key removes everything older below it); a few short keys at the oldest
        // timestamp keep the prefix paths in play without emptying the set
        let fixed_len = g.max_key_len;
        let large = self.large;
        // small sets: half of the runs draw most keys with one length too, otherwise the sets
        // that survive pruning rarely exceed max_set_size and the session never splits a range
        let flat = !large && rng.chance(1, 2);
        let mut one = |rng: &mut Rng| {
            let mut e = gen_ent(rng, &g);
            if flat && rng.chance(4, 5) {
                e.k = (0..fixed_len.min(3)).map(|_| *rng.pick(&crate::world::ALPHABET)).collect();
            }
            if large {
                if rng.chance(1, 50) {
                    e.ts = 1;
                } else {
                    e.k = (0..fixed_len).map(|_| *rng.pick(&crate::world::ALPHABET)).collect();
                    e.ts = e.ts.max(2);
                }
            }
            e
        };
        let mut a_items: Vec<Ent> = (0..na).map(|_| one(rng)).collect();
        let mut b_items: Vec<Ent> = (0..nb).map(|_| one(rng)).collect();
        match shape {
            0 => a_items.clear(),
            1 => b_items.clear(),
            2 => b_items = a_items.clone(),
            3 => b_items.extend(a_items.iter().cloned()),
            4 => {
                // share a random half
                for e in a_items.iter() {
                    if rng.chance(1, 2) {
                        b_items.push(e.clone());
                    }
                }
            }
            _ => {}
        }
        let pick_backend = |rng: &mut Rng| match rng.below(10) {
            0..=5 => Backend::Mem,
            6..=8 => Backend::Disk,
            _ => Backend::File,
        };
        let ages = (0..rng.urange(0, 3)).map(|_| (rng.urange(0, 8), rng.below(12) as u32)).collect();
        let mut probes = Vec::new();
        if self.mode == Mode::Differential {
            let gen_id = |rng: &mut Rng, items: &[Ent]| -> IdSpec {
                match rng.below(10) {
                    0 => IdSpec { a: 0, k: vec![], default: true, foreign: 0 },
                    1..=5 if !items.is_empty() => {
                        let e = rng.pick(items);
                        IdSpec { a: e.a, k: e.k.clone(), default: false, foreign: 0 }
                    }
                    6 => IdSpec { a: rng.below(g.authors as u64 + 1) as u8, k: gen_key(rng, g.max_key_len), default: false, foreign: rng.range(1, 5) as u8 },
                    _ => IdSpec { a: rng.below(g.authors as u64 + 1) as u8, k: gen_key(rng, g.max_key_len), default: false, foreign: 0 },
                }
            };
            for _ in 0..rng.urange(2, 8) {
                let p = match rng.below(6) {
                    0..=3 => Probe::Range { x: gen_id(rng, &a_items), y: gen_id(rng, &a_items) },
                    _ => Probe::Prefixes { key: gen_id(rng, &a_items) },
                };
                probes.push(p);
            }
            if rng.chance(1, 2) {
                probes.push(Probe::RemovePrefix { prefix: gen_id(rng, &a_items), max_ts: rng.range(0, g.ts_values) });
            }
        }
        let cfg_default = rng.chance(1, 3);
        PairPlan {
            seed: rng.next_u64(),
            backend_a: pick_backend(rng),
            backend_b: pick_backend(rng),
            // a third of the runs use the shipped configuration (max_set_size 1, split_factor 2)
            max_set_size: if cfg_default { 1 } else { rng.urange(1, 8) },
            split_factor: if cfg_default { 2 } else { rng.urange(2, 8) },
            a_items,
            b_items,
            initiator_is_a: rng.chance(1, 2),
            ages,
            probes,
            sync_doc: if rng.chance(1, 2) { 0 } else { rng.below(4) as u8 },
            other_docs: if rng.chance(1, 2) { Vec::new() } else { (0..rng.urange(1, 6)).map(|_| { let mut e = gen_ent(rng, &g); e.d = rng.below(4) as u8; e }).collect() },
            prelife: if rng.chance(1, 6) { (0..rng.urange(1, 8)).map(|_| gen_ent(rng, &g)).collect() } else { Vec::new() },
            prelife_sides: rng.range(1, 3) as u8,
        }
    }

    fn exec(&self, plan: &PairPlan, cx: &mut Cx) -> Res {
        block_on_sim(plan.seed, self.run(plan, cx))
    }

    fn shrink(&self, plan: &PairPlan) -> Vec<PairPlan> {
        let mut out = Vec::new();
        for c in shrink_vec(&plan.a_items) {
            let mut p = plan.clone();
            p.a_items = c;
            out.push(p);
        }
        for c in shrink_vec(&plan.b_items) {
            let mut p = plan.clone();
            p.b_items = c;
            out.push(p);
        }
        for c in shrink_vec(&plan.probes) {
            let mut p = plan.clone();
            p.probes = c;
            out.push(p);
        }
        if !plan.ages.is_empty() {
            let mut p = plan.clone();
            p.ages.clear();
            out.push(p);
        }
        if !plan.prelife.is_empty() {
            let mut p = plan.clone();
            p.prelife.clear();
            out.push(p);
        }
        if !plan.other_docs.is_empty() {
            let mut p = plan.clone();
            p.other_docs.clear();
            out.push(p);
        }
        for c in shrink_vec(&plan.other_docs) {
            let mut p = plan.clone();
            p.other_docs = c;
            out.push(p);
        }
        if plan.backend_a != Backend::Mem || plan.backend_b != Backend::Mem {
            let mut p = plan.clone();
            p.backend_a = Backend::Mem;
            p.backend_b = Backend::Mem;
            out.push(p);
        }
        if plan.split_factor > 2 {
            let mut p = plan.clone();
            p.split_factor = 2;
            out.push(p);
        }
        if plan.max_set_size > 1 {
            let mut p = plan.clone();
            p.max_set_size = 1;
            out.push(p);
        }
        for which in 0..2 {
            let items = if which == 0 { &plan.a_items } else { &plan.b_items };
            for (i, it) in items.iter().enumerate() {
                if !it.k.is_empty() {
                    let mut p = plan.clone();
                    if which == 0 { p.a_items[i].k.pop(); } else { p.b_items[i].k.pop(); }
                    out.push(p);
                }
                if it.ts > 1 {
                    let mut p = plan.clone();
                    if which == 0 { p.a_items[i].ts -= 1; } else { p.b_items[i].ts -= 1; }
                    out.push(p);
                }
            }
        }
        out
    }

    fn components(&self) -> (Vec<&'static str>, Vec<&'static str>) {
        (
            vec!["ranger::Store::process_message / put", "sync::Replica::sync_initial_message / sync_process_message (validation)", "store::fs StoreInstance (get_range, get_first, get_fingerprint, prefixes_of, remove_prefix_filtered)", "store::fs::bounds", "redb"],
            vec!["transport (postcard serialise + deserialise hop per message)", "disk (SimDisk / redb in-memory / file in /dev/shm)", "for C08: the ordered-map backend is harness code driven by the crate's own routine"],
        )
    }

    fn rule(&self) -> String {
        if self.large {
            return "A run fills two replicas with 30-250 entries each, in a fifth of the runs 260-700 on one side (1-4 authors, keys of one fixed length of 3-5 bytes from the biased alphabet so that entries do not prune each other, plus a few shorter keys at the oldest timestamp; 4-40 timestamps, few deletion markers; shapes: random, one nearly empty, identical, superset, half shared), draws split_factor 2-8, max_set_size 1-8, the initiator and the backends, then runs one complete session and an immediately following one: several levels of range splitting under every configuration. Non-trivial: as for the small batch.".into();
        }
        "A run fills two replicas (0-24 entries each from the biased alphabet; shapes: random, one empty, identical, superset, half shared) through the remote-insert path, draws split_factor 2-8, max_set_size 1-8, the initiator, backends, and age-commit placements inside message processing, then runs one complete session and an immediately following one. Non-trivial: an age-commit fired inside an operation, or a rare branch (wrap-around split, recursion, pruning during the session) was hit.".into()
    }
}

/// The harness-side ordered-map backend (the reference for C08), written from the ordered-map
/// definitions: range membership incl. wrap-around and x == y, first key, XOR fingerprint, all
/// prefixes, prefix removal.
#[derive(Default, Clone)]
pub struct MapStore {
    pub data: BTreeMap<Vec<u8>, SignedEntry>,
}

fn contains(x: &[u8], y: &[u8], t: &[u8]) -> bool {
    use std::cmp::Ordering::*;
    match x.cmp(y) {
        Equal => true,
        Less => x <= t && t < y,
        Greater => x <= t || t < y,
    }
}

pub fn entry_fingerprint(e: &SignedEntry) -> [u8; 32] {
    let mut h = blake3::Hasher::new();
    h.update(e.entry().namespace().as_ref());
    h.update(e.author_bytes().as_ref());
    h.update(e.key());
    h.update(&e.timestamp().to_be_bytes());
    h.update(e.content_hash().as_bytes());
    h.finalize().into()
}

impl MapStore {
    fn range(&self, x: &RecordIdentifier, y: &RecordIdentifier) -> Vec<SignedEntry> {
        self.data
            .iter()
            .filter(|(k, _)| contains(x.as_ref(), y.as_ref(), k))
            .map(|(_, v)| v.clone())
            .collect()
    }
}

impl ranger_ext::Backend for MapStore {
    fn get_first(&mut self) -> RecordIdentifier {
        self.data.values().next().map(|e| e.id().clone()).unwrap_or_default()
    }
    fn get_range(&mut self, x: &RecordIdentifier, y: &RecordIdentifier) -> Vec<SignedEntry> {
        self.range(x, y)
    }
    fn get_fingerprint(&mut self, x: &RecordIdentifier, y: &RecordIdentifier) -> [u8; 32] {
        let mut fp: [u8; 32] = *blake3::hash(&[]).as_bytes();
        for e in self.range(x, y) {
            let f = entry_fingerprint(&e);
            for i in 0..32 {
                fp[i] ^= f[i];
            }
        }
        fp
    }
    fn entry_put(&mut self, entry: SignedEntry) {
        self.data.insert(entry.id().as_ref().to_vec(), entry);
    }
    fn prefixes_of(&mut self, key: &RecordIdentifier) -> Vec<SignedEntry> {
        let kb: &[u8] = key.as_ref();
        self.data.iter().filter(|(k, _)| kb.starts_with(k)).map(|(_, v)| v.clone()).collect()
    }
    fn remove_prefix_filtered(&mut self, prefix: &RecordIdentifier, predicate: &dyn Fn(&Record) -> bool) -> usize {
        let pb: &[u8] = prefix.as_ref();
        let before = self.data.len();
        self.data.retain(|k, v| !(k.starts_with(pb) && predicate(v.entry().record())));
        before - self.data.len()
    }
}

enum Side {
    Real(Sut),
    Map(MapStore),
}

/// An earlier life of the reconciled document: written, looked at as a session does (initial
/// message, heads, a news check, a query), closed, removed, and left to be created again.
async fn side_prelife(s: &mut Sut, items: &[Ent]) -> Res {
    let ns = world().doc_id(sd());
    ensure_doc(s.store(), sd())?;
    for e in items {
        let mut e = e.clone();
        e.d = sd();
        offer(s.store(), &e, Path::Remote).await?;
    }
    {
        let mut r = s.store().open_replica(&ns).map_err(|e| harness(format!("open: {e}")))?;
        let _ = r.sync_initial_message().map_err(|e| harness(format!("initial message: {e:#}")))?;
    }
    s.store().close_replica(ns);
    let heads: Vec<_> = s.store().get_latest_for_each_author(ns).map_err(|e| harness(format!("{e:#}")))?.filter_map(|r| r.ok()).collect();
    let mut h = iroh_docs::AuthorHeads::default();
    for (a, t, _) in heads {
        h.insert(a, t);
    }
    let _ = s.store().has_news_for_us(ns, &h);
    let _ = s.store().get_many(ns, iroh_docs::store::Query::all()).map(|i| i.count());
    let _ = s.store().get_sync_peers(&ns).map(|i| i.map(|i| i.count()));
    s.store().remove_replica(&ns).map_err(|e| harness(format!("remove: {e:#}")))?;
    Ok(())
}

impl Side {
    async fn fill(&mut self, items: &[Ent]) -> Res {
        match self {
            Side::Real(s) => {
                ensure_doc(s.store(), sd())?;
                for e in items {
                    let mut e = e.clone();
                    e.d = sd();
                    offer(s.store(), &e, Path::Remote).await?;
                }
            }
            Side::Map(m) => {
                for e in items {
                    let mut e = e.clone();
                    e.d = sd();
                    ranger_ext::put(m, e.signed()).map_err(|e| harness(format!("map put: {e:#}")))?;
                }
            }
        }
        Ok(())
    }

    fn dump(&mut self) -> Res<crate::sut::Dump> {
        match self {
            Side::Real(s) => dump(s.store(), sd()).map_err(harness),
            Side::Map(m) => {
                let mut doc = RefDoc::default();
                let mut alien = vec![];
                let mut raw = vec![];
                for e in m.data.values() {
                    match crate::world::ent_of(sd(), e) {
                        Some(ent) => {
                            doc.0.insert((ent.a, ent.k.clone()), ent);
                        }
                        None => alien.push(format!("{:?}", e.entry())),
                    }
                    raw.push(e.clone());
                }
                Ok(crate::sut::Dump { doc, alien, raw })
            }
        }
    }

    fn initial(&mut self) -> Res<ProtocolMessage> {
        match self {
            Side::Real(s) => {
                let ns = world().doc_id(sd());
                let mut r = s.store().open_replica(&ns).map_err(|e| harness(format!("open: {e}")))?;
                let m = r.sync_initial_message().map_err(|e| Violation::new("terminate/error", format!("initial message failed: {e:#}")));
                drop(r);
                s.store().close_replica(ns);
                m
            }
            Side::Map(m) => ranger_ext::initial_message(m).map_err(|e| harness(format!("map initial: {e:#}"))),
        }
    }

    async fn process(&mut self, msg: ProtocolMessage, out: &mut SyncOutcome) -> Res<Option<ProtocolMessage>> {
        match self {
            Side::Real(s) => {
                let ns = world().doc_id(sd());
                iroh_docs::verif::set_wall_clock_micros(Some(1_000_000));
                let mut r = s.store().open_replica(&ns).map_err(|e| harness(format!("open: {e}")))?;
                let res = r.sync_process_message(msg, [7u8; 32], out).await;
                drop(r);
                s.store().close_replica(ns);
                res.map_err(|e| Violation::new("terminate/error", format!("processing a message failed: {e:#}")))
            }
            Side::Map(m) => {
                // mirror the bookkeeping of Replica::sync_process_message
                let mm = crate::msg::MMessage::from_real(&msg);
                out.num_recv += mm.values().len();
                let (reply, _inserted) = ranger_ext::process_message(m, msg).await.map_err(|e| harness(format!("map process: {e:#}")))?;
                if let Some(r) = &reply {
                    out.num_sent += crate::msg::MMessage::from_real(r).values().len();
                }
                Ok(reply)
            }
        }
    }
}

struct SessionOut {
    transcript: Vec<Vec<u8>>,
    out_init: SyncOutcome,
    out_acc: SyncOutcome,
}

/// Run one complete session; every message crosses a serialise/deserialise hop.
async fn session(init: &mut Side, acc: &mut Side, bound: usize, ages: &[(usize, u32)], cx: &mut Cx, first_check: &mut bool) -> Res<SessionOut> {
    let mut transcript = Vec::new();
    let mut out_init = SyncOutcome::default();
    let mut out_acc = SyncOutcome::default();
    let mut msg = init.initial()?;
    let mut to_acceptor = true;
    let mut n = 0usize;
    loop {
        if *first_check {
            mirror_selfcheck(&msg).map_err(harness)?;
            *first_check = false;
        }
        let bytes = bytes_of(&msg);
        if bytes.len() > 1 << 20 {
            // at most 1000 entries of ~250 bytes are in play (250 KB if all of them travel at once): a megabyte message means the exchange is exploding
            return Err(Violation::new("terminate/blowup", format!("message {n} of the session is {} bytes, several times everything both replicas hold", bytes.len())));
        }
        let hop: ProtocolMessage = postcard::from_bytes(&bytes).map_err(|e| harness(format!("hop decode: {e}")))?;
        transcript.push(bytes);
        n += 1;
        if n > bound {
            return Err(Violation::new("terminate/bound", format!("session still running after {n} messages (bound {bound})")));
        }
        let mut fired = None;
        if let Some((_, at)) = ages.iter().find(|(i, _)| *i == n - 1) {
            fired = Some(arm_age(*at).1);
        }
        let reply = if to_acceptor { acc.process(hop, &mut out_acc).await } else { init.process(hop, &mut out_init).await };
        disarm_age();
        if fired.map(|f| f.get()).unwrap_or(false) {
            cx.fault("age_commit_inside_operation");
        }
        let reply = reply?;
        cx.ev(if to_acceptor { "msg->acc" } else { "msg->init" }, format!("{}B", transcript.last().unwrap().len()));
        match reply {
            Some(m) => {
                msg = m;
                to_acceptor = !to_acceptor;
            }
            None => break,
        }
    }
    Ok(SessionOut { transcript, out_init, out_acc })
}

impl Pair {
    async fn run(&self, plan: &PairPlan, cx: &mut Cx) -> Res {
        iroh_docs::verif::set_sync_config(Some((plan.max_set_size.max(1), plan.split_factor.max(2))));
        SYNC_DOC.with(|c| c.set(plan.sync_doc % 4));
        if plan.other_docs.iter().any(|e| e.d != sd()) {
            cx.probe("other_documents_in_the_same_store");
        }
        let variants: Vec<(&str, bool)> = match self.mode {
            Mode::Converge => vec![("planned", false)],
            Mode::Differential => vec![("mem", false), ("disk", false), ("map", true)],
        };
        let mut first_check = true;
        let mut reference: Option<(Vec<Vec<u8>>, Vec<Vec<u8>>, RefDoc, RefDoc)> = None;
        for (vi, (vname, is_map)) in variants.iter().enumerate() {
            let mk = |b: Backend| -> Res<Side> { Ok(Side::Real(Sut::new(b)?)) };
            let (mut a, mut b) = if *is_map {
                (Side::Map(MapStore::default()), Side::Map(MapStore::default()))
            } else {
                match (self.mode, *vname) {
                    (Mode::Converge, _) => (mk(plan.backend_a)?, mk(plan.backend_b)?),
                    (_, "mem") => (mk(Backend::Mem)?, mk(Backend::Mem)?),
                    _ => {
                        let bk = if plan.backend_a == Backend::File { Backend::File } else { Backend::Disk };
                        (mk(bk)?, mk(bk)?)
                    }
                }
            };
            // neighbours first: documents with smaller and larger ids in the same stores
            for side in [&mut a, &mut b] {
                if let Side::Real(s) = side {
                    for e in plan.other_docs.iter().filter(|e| e.d != sd()) {
                        ensure_doc(s.store(), e.d)?;
                        offer(s.store(), e, Path::Remote).await?;
                    }
                }
            }
            if !plan.prelife.is_empty() {
                for (side, bit) in [(&mut a, 1u8), (&mut b, 2u8)] {
                    if plan.prelife_sides & bit != 0 {
                        if let Side::Real(s) = side {
                            side_prelife(s, &plan.prelife).await?;
                            cx.fault("document_had_an_earlier_life_in_this_store");
                        }
                    }
                }
            }
            a.fill(&plan.a_items).await?;
            b.fill(&plan.b_items).await?;
            let a0 = a.dump()?;
            let b0 = b.dump()?;
            let expected = RefDoc::join(a0.doc.entries().chain(b0.doc.entries()));
            if expected.0.len() < a0.doc.0.len() + b0.doc.0.len() {
                cx.probe("union_has_superseded_or_shared");
            }
            // primitive probes (C08) on side A before the session
            if self.mode == Mode::Differential && !*is_map {
                if let Side::Real(s) = &mut a {
                    self.probe_primitives(s, &a0.raw, &plan.probes, false, vname, cx)?;
                }
            }
            let bound = 2 * (a0.doc.0.len() + b0.doc.0.len()) + 8;
            let (init, acc) = if plan.initiator_is_a { (&mut a, &mut b) } else { (&mut b, &mut a) };
            let ages: &[(usize, u32)] = if *is_map { &[] } else { &plan.ages };
            let s1 = session(init, acc, bound, ages, cx, &mut first_check).await?;
            let s2 = session(init, acc, 4, &[], cx, &mut first_check).await?;
            if s1.transcript.len() >= 6 {
                cx.probe("session_of_6_or_more_messages");
            }
            if s1.transcript.len() >= 10 {
                cx.probe("session_of_10_or_more_messages");
            }
            if s1.transcript.len() > 3 {
                cx.probe("recursed");
            }
            cx.state(crate::rng::fnv(format!("{}:{}:{}", s1.transcript.len(), a0.doc.0.len(), b0.doc.0.len()).as_bytes()));
            let a1 = a.dump()?;
            let b1 = b.dump()?;
            cx.ev("final", format!("{vname} msgs={} A={} B={}", s1.transcript.len(), a1.doc.short(), b1.doc.short()));
            match self.mode {
                Mode::Converge => {
                    if !a1.alien.is_empty() || !b1.alien.is_empty() {
                        return Err(Violation::new("converge/alien", format!("entries nobody wrote: {:?} {:?}", a1.alien, b1.alien)));
                    }
                    if a1.doc != b1.doc {
                        return Err(Violation::new("converge/diverge", format!("after a complete session A={} B={} (started A={} B={}, split_factor={}, max_set_size={})", a1.doc.short(), b1.doc.short(), a0.doc.short(), b0.doc.short(), plan.split_factor, plan.max_set_size)));
                    }
                    compare("join", "both replicas after the session", &a1, &expected)?;
                    let (oi, oa) = (&s1.out_init, &s1.out_acc);
                    if oi.num_sent != oa.num_recv || oi.num_recv != oa.num_sent {
                        return Err(Violation::new("counts/mismatch", format!("initiator sent={} recv={}, acceptor sent={} recv={}", oi.num_sent, oi.num_recv, oa.num_sent, oa.num_recv)));
                    }
                    let (oi2, oa2) = (&s2.out_init, &s2.out_acc);
                    if oi2.num_sent + oi2.num_recv + oa2.num_sent + oa2.num_recv != 0 {
                        return Err(Violation::new("second-silent/transfers", format!("second session transferred entries: initiator sent={} recv={}, acceptor sent={} recv={}; state {}", oi2.num_sent, oi2.num_recv, oa2.num_sent, oa2.num_recv, a1.doc.short())));
                    }
                    if oi2.num_sent != oa2.num_recv || oi2.num_recv != oa2.num_sent {
                        return Err(Violation::new("counts/mismatch", "second session counts do not mirror".to_string()));
                    }
                }
                Mode::Differential => {
                    match &reference {
                        None => reference = Some((s1.transcript.clone(), s2.transcript.clone(), a1.doc.clone(), b1.doc.clone())),
                        Some((t1, t2, ra, rb)) => {
                            let base = variants[0].0;
                            if &s1.transcript != t1 || &s2.transcript != t2 {
                                let idx = s1.transcript.iter().zip(t1.iter()).position(|(x, y)| x != y).unwrap_or(s1.transcript.len().min(t1.len()));
                                return Err(Violation::new(format!("transcript/{vname}"), format!("protocol messages over {vname} differ from {base} at message {idx} ({} vs {} messages); A0={} B0={} split_factor={} max_set_size={}", s1.transcript.len(), t1.len(), a0.doc.short(), b0.doc.short(), plan.split_factor, plan.max_set_size)));
                            }
                            if &a1.doc != ra || &b1.doc != rb {
                                return Err(Violation::new(format!("final/{vname}"), format!("final sets over {vname} differ from {base}: A={} vs {} ; B={} vs {}", a1.doc.short(), ra.short(), b1.doc.short(), rb.short())));
                            }
                        }
                    }
                }
            }
            // mutating probes last, on the final state, so they cannot disturb the comparison
            if self.mode == Mode::Differential && !*is_map {
                if let Side::Real(s) = &mut a {
                    self.probe_primitives(s, &a1.raw, &plan.probes, true, vname, cx)?;
                }
            }
            let _ = vi;
        }
        Ok(())
    }

    /// Compare the storage primitives of the real store with the ordered-map definitions.
    fn probe_primitives(&self, s: &mut Sut, held: &[SignedEntry], probes: &[Probe], mutating: bool, vname: &str, cx: &mut Cx) -> Res {
        use ranger_ext::Backend as _;
        let ns = world().doc_id(sd());
        let mut map = MapStore::default();
        for e in held {
            map.data.insert(e.id().as_ref().to_vec(), e.clone());
        }
        let mut r = s.store().open_replica(&ns).map_err(|e| harness(format!("open: {e}")))?;
        let first = ranger_ext::replica_get_first(&mut r).map_err(|e| harness(format!("{e:#}")))?;
        let res = (|| -> Res {
            if first != map.get_first() {
                return Err(Violation::new("primitive/get_first", format!("[{vname}] first key {:?}, ordered map says {:?}", first, map.get_first())));
            }
            for p in probes {
                match p {
                    Probe::Range { x, y } => {
                        let (x, y) = (x.id(), y.id());
                        let got = ranger_ext::replica_get_range(&mut r, x.clone(), y.clone()).map_err(|e| harness(format!("{e:#}")))?;
                        let want = map.get_range(&x, &y);
                        let shape = match x.cmp(&y) { std::cmp::Ordering::Equal => "all", std::cmp::Ordering::Less => "regular", _ => "wrap" };
                        cx.probe(match shape { "wrap" => "range_wrap_around", "all" => "range_all", _ => "range_regular" });
                        if got != want {
                            let f = |v: &[SignedEntry]| v.iter().map(|e| format!("{}:{}", world().author_index(&e.author()).unwrap_or(9), hex::encode(e.key()))).collect::<Vec<_>>().join(",");
                            return Err(Violation::new(format!("primitive/get_range-{shape}"), format!("[{vname}] range x={:?} y={:?}: got [{}] ordered map gives [{}]", x, y, f(&got), f(&want))));
                        }
                        let fp = ranger_ext::replica_get_fingerprint(&mut r, x.clone(), y.clone()).map_err(|e| harness(format!("{e:#}")))?;
                        if fp != map.get_fingerprint(&x, &y) {
                            return Err(Violation::new(format!("primitive/get_fingerprint-{shape}"), format!("[{vname}] fingerprint of range x={:?} y={:?} differs from XOR over the ordered-map members", x, y)));
                        }
                    }
                    Probe::Prefixes { key } => {
                        // (prefix lookups and removals are only ever called with identifiers of
                        // entries that passed the namespace check, so they are probed with
                        // identifiers of the reconciled document; range bounds come from the
                        // peer and are probed with any namespace)
                        let key = IdSpec { foreign: 0, ..key.clone() }.id();
                        let got = ranger_ext::replica_prefixes_of(&mut r, &key).map_err(|e| harness(format!("{e:#}")))?;
                        let want = map.prefixes_of(&key);
                        if got != want {
                            return Err(Violation::new("primitive/prefixes_of", format!("[{vname}] prefixes of {:?}: got {} entries, ordered map gives {}", key, got.len(), want.len())));
                        }
                    }
                    Probe::RemovePrefix { .. } if !mutating => {}
                    Probe::RemovePrefix { prefix, max_ts } => {
                        let prefix = IdSpec { foreign: 0, ..prefix.clone() }.id();
                        let t = *max_ts;
                        let got = ranger_ext::replica_remove_prefix_filtered(&mut r, &prefix, |rec| rec.timestamp() <= t).map_err(|e| harness(format!("{e:#}")))?;
                        let want = map.remove_prefix_filtered(&prefix, &|rec: &Record| rec.timestamp() <= t);
                        if want > 0 {
                            cx.probe("prefix_removal_with_victims");
                        }
                        let all = ranger_ext::replica_get_range(&mut r, prefix.clone(), prefix.clone()).map_err(|e| harness(format!("{e:#}")))?;
                        let want_all: Vec<SignedEntry> = map.data.values().cloned().collect();
                        if got != want || all != want_all {
                            return Err(Violation::new("primitive/remove_prefix_filtered", format!("[{vname}] removing prefix {:?} with ts<={t}: removed {got} (ordered map: {want}), {} entries left (ordered map: {})", prefix, all.len(), want_all.len())));
                        }
                    }
                }
            }
            Ok(())
        })();
        drop(r);
        s.store().close_replica(ns);
        res
    }
}
