//! Scenario `coord-real` (C11, real-session mode): as `coord`, but every dial runs the real
//! `run_alice` and every delivered request the real `BobState::run` + `into_outcome` over
//! SimPipes, with the accept callback going to the callee's live actor exactly as
//! `handle_connection` builds it. Completions, declines and failures of the two ends therefore
//! arise from the real wire protocol under frame-by-frame delivery, cuts and resets; the driver
//! only decides what the network does.

use std::{
    cell::{Cell, RefCell},
    future::Future,
    pin::Pin,
    rc::Rc,
    sync::{Arc, Mutex},
    task::{Context, Poll},
};

use iroh::PublicKey;
use iroh_docs::{
    engine::{
        verif::{ToLiveActor, VerifDialFn},
        SyncReason,
    },
    net::{
        codec_verif::{run_alice, BobState},
        AbortReason, AcceptError, AcceptOutcome, ConnectError, SyncFinished,
    },
    NamespaceId,
};
use serde::{Deserialize, Serialize};
use tokio::sync::oneshot;

use crate::{
    pipe::{first_frame_len, pipe, PipeCtl, PipeReader, PipeWriter},
    rng::Rng,
    runner::{barrier, shrink_vec, Cx, Res, Scenario, Tier, Violation},
    scen::coord::{mk_node_with, running, snapshot, sync_report, CNode},
    sut::harness,
    world::{world, Ent},
};

pub struct CoordReal;

/// Everything in this scenario runs on one thread; the live actor's JoinSets demand `Send`.
struct AssertSend<F>(F);
unsafe impl<F> Send for AssertSend<F> {}
impl<F: Future> Future for AssertSend<F> {
    type Output = F::Output;
    fn poll(self: Pin<&mut Self>, cx: &mut Context<'_>) -> Poll<F::Output> {
        // SAFETY: structural projection of a newtype
        unsafe { self.map_unchecked_mut(|s| &mut s.0) }.poll(cx)
    }
}

#[derive(Serialize, Deserialize, Clone, Debug)]
pub enum RStep {
    NeighborUp { x: u8 },
    SyncReport { x: u8, news: bool },
    /// hand the callee the incoming stream of dial d (undelivered dials, index modulo)
    Deliver { d: u8 },
    /// the connection attempt fails: both directions reset before anything is delivered
    Lose { d: u8 },
    /// the callee gets a stream that ends before the request
    Break { d: u8 },
    /// the request arrives, but the direction back to the dialer is already dead: whatever the
    /// callee answers (a decline included) cannot be sent
    DeliverNoReturn { d: u8 },
    /// let up to `frames` frames of session s flow (delivered sessions, index modulo)
    Pump { s: u8, frames: u8 },
    /// cut session s: 0 towards the dialer, 1 towards the acceptor, 2 both; reset or EOF
    Cut { s: u8, which: u8, reset: bool },
    UnknownDocRequest { x: u8 },
    /// something happens to node x's replica underneath its live actor: 0 sync switched off,
    /// 1 switched on again, 2 one handle closed, 3 opened again (with sync)
    LocalFault { x: u8, kind: u8 },
}

#[derive(Serialize, Deserialize, Clone, Debug)]
pub struct CoordRealPlan {
    pub seed: u64,
    pub swap_ids: bool,
    pub items: [Vec<Ent>; 2],
    pub steps: Vec<RStep>,
}

struct RDial {
    id: usize,
    from: usize,
    reason: SyncReason,
    a2b: PipeCtl,
    b2a: PipeCtl,
    bob_ends: Option<(PipeWriter, PipeReader)>,
    delivered: bool,
    dial_done: Rc<Cell<bool>>,
    accept_done: Rc<Cell<bool>>,
    outcome: Rc<RefCell<Option<AcceptOutcome>>>,
    peer_open: Vec<usize>,
    callee_accepting: bool,
}

struct NewDial {
    from: usize,
    ns: NamespaceId,
    peer: PublicKey,
    reason: SyncReason,
    a2b: PipeCtl,
    b2a: PipeCtl,
    bob_ends: (PipeWriter, PipeReader),
    dial_done: Rc<Cell<bool>>,
}
// only ever touched on the simulator's single thread
unsafe impl Send for NewDial {}

#[derive(Default)]
struct RNet {
    new_dials: Vec<NewDial>,
}

impl Scenario for CoordReal {
    type Plan = CoordRealPlan;
    fn name(&self) -> String {
        "coord-real".into()
    }

    fn gen(&self, rng: &mut Rng, tier: Tier) -> CoordRealPlan {
        let n = rng.urange(3, tier.pick(14, 22));
        let g = crate::world::GenCfg { docs: 1, authors: 2, max_key_len: 2, ts_values: 5, marker_pct: 10, contents: 3 };
        let mut steps = Vec::new();
        // a third of the runs: the replica is closed or its sync switch is flipped underneath the
        // live actor, so that accepted sessions fail at their first or a later local step
        let local_faults = rng.chance(1, 3);
        if local_faults && rng.chance(1, 2) {
            steps.push(RStep::LocalFault { x: rng.below(2) as u8, kind: *rng.pick(&[0u8, 2]) });
        }
        for _ in 0..n {
            let x = rng.below(2) as u8;
            let s = match rng.below(30) {
                0..=5 => RStep::NeighborUp { x },
                6..=8 => RStep::SyncReport { x, news: rng.chance(3, 4) },
                9..=14 => RStep::Deliver { d: rng.below(4) as u8 },
                15..=16 => RStep::Lose { d: rng.below(4) as u8 },
                17 => if rng.chance(1, 2) { RStep::Break { d: rng.below(4) as u8 } } else { RStep::DeliverNoReturn { d: rng.below(4) as u8 } },
                18..=24 => RStep::Pump { s: rng.below(4) as u8, frames: rng.range(1, 6) as u8 },
                25..=27 => RStep::Cut { s: rng.below(4) as u8, which: rng.below(3) as u8, reset: rng.chance(1, 2) },
                28 if local_faults => RStep::LocalFault { x, kind: *rng.pick(&[0u8, 0, 1, 2, 2, 3]) },
                _ => RStep::UnknownDocRequest { x },
            };
            steps.push(s);
        }
        let items = [
            (0..rng.urange(0, 4)).map(|_| crate::world::gen_ent(rng, &g)).collect(),
            (0..rng.urange(0, 4)).map(|_| crate::world::gen_ent(rng, &g)).collect(),
        ];
        CoordRealPlan { seed: rng.next_u64(), swap_ids: rng.chance(1, 2), items, steps }
    }

    fn exec(&self, plan: &CoordRealPlan, cx: &mut Cx) -> Res {
        let rt = tokio::runtime::Builder::new_current_thread()
            .enable_all()
            .start_paused(true)
            .rng_seed(tokio::runtime::RngSeed::from_bytes(&plan.seed.to_le_bytes()))
            .build()
            .map_err(|e| harness(format!("runtime: {e}")))?;
        let local = tokio::task::LocalSet::new();
        let r = local.block_on(&rt, run(plan, cx));
        drop(local);
        rt.shutdown_background();
        r
    }

    fn shrink(&self, plan: &CoordRealPlan) -> Vec<CoordRealPlan> {
        let mut out: Vec<CoordRealPlan> = shrink_vec(&plan.steps).into_iter().map(|c| CoordRealPlan { steps: c, ..plan.clone() }).collect();
        for i in 0..2 {
            if !plan.items[i].is_empty() {
                let mut p = plan.clone();
                p.items[i].clear();
                out.push(p);
            }
        }
        out
    }

    fn components(&self) -> (Vec<&'static str>, Vec<&'static str>) {
        (
            vec!["engine::live::LiveActor (run loop and all completion handlers)", "engine::state", "net::codec::run_alice and BobState::run / into_outcome (both ends of every session)", "actor::SyncHandle / store actor", "iroh Endpoint / Gossip / blob store / downloader (constructed, idle)"],
            vec!["QUIC connect/accept (dial seam; SimPipes released frame by frame, cut or reset by the driver)", "the few lines of connect_and_sync / handle_connection that map a stream result to SyncFinished / AcceptError (reproduced in the harness)", "gossip delivery of neighbour and sync-report events"],
        )
    }

    fn rule(&self) -> String {
        "As `coord`, with real sessions: each dial runs run_alice, each delivered request BobState::run with the accept callback asking the callee's live actor; the driver delivers, loses or breaks requests, pumps sessions frame by frame and cuts either direction (EOF or reset); both stores hold 0-4 entries so sessions transfer data; in a third of the runs a replica is closed or has its sync switch flipped underneath the live actor, so that accepted sessions fail at a local step. Same safety oracles after every step and progress oracle at quiescence. Non-trivial: a loss, break or cut fired, or a decline / resync / simultaneous dial was observed.".into()
    }
}

fn make_dial_fn(i: usize, net: Arc<Mutex<RNet>>, handle_slot: Arc<Mutex<Option<iroh_docs::actor::SyncHandle>>>) -> VerifDialFn {
    Arc::new(move |ns, peer, reason| {
        let (a2b_w, a2b_r, a2b) = pipe(4096, false);
        let (b2a_w, b2a_r, b2a) = pipe(4096, false);
        let done = Rc::new(Cell::new(false));
        net.lock().unwrap().new_dials.push(NewDial { from: i, ns, peer, reason, a2b, b2a, bob_ends: (b2a_w, a2b_r), dial_done: done.clone() });
        let handle = handle_slot.lock().unwrap().clone();
        let fut = async move {
            let (mut w, mut r) = (a2b_w, b2a_r);
            // what connect_and_sync does with the stream result
            let res = match handle {
                Some(h) => run_alice(&mut w, &mut r, &h, ns, peer).await,
                None => Err(ConnectError::Connect { error: anyhow::anyhow!("no handle") }),
            };
            drop(w);
            done.set(true);
            res.map(|outcome| SyncFinished { namespace: ns, peer, outcome, timings: Default::default() })
        };
        Box::pin(AssertSend(fut))
    })
}

async fn run(plan: &CoordRealPlan, cx: &mut Cx) -> Res {
    let w = world();
    let nssec = &w.docs[0];
    let ns = nssec.id();
    let unknown_ns = w.doc_id(1);
    let net = Arc::new(Mutex::new(RNet::default()));
    let keys: [[u8; 32]; 2] = if plan.swap_ids { [[2; 32], [1; 32]] } else { [[1; 32], [2; 32]] };
    let mut nodes: Vec<CNode> = Vec::new();
    for i in 0..2 {
        let slot = Arc::new(Mutex::new(None));
        let dial = make_dial_fn(i, net.clone(), slot.clone());
        let entries: Vec<_> = plan.items[i].iter().map(|e| { let mut e = e.clone(); e.d = 0; e.signed() }).collect();
        let n = mk_node_with(keys[i], dial, nssec, &entries).await.map_err(harness)?;
        *slot.lock().unwrap() = Some(n.sync.clone());
        nodes.push(n);
    }
    let mut dials: Vec<RDial> = Vec::new();
    let mut epoch = [0u32; 2];
    let mut resync_armed: [Option<u32>; 2] = [None, None];
    let mut ever_armed = [false, false];
    let mut was_running = [false, false];
    let mut allowed_seen: Vec<bool> = Vec::new();

    macro_rules! gone {
        ($e:expr) => {
            $e.map_err(|m: String| match crate::runner::recorded_panic() {
                Some(v) => v,
                None => Violation::new("actor-stopped/live", format!("{m} (its run loop ended with an error)")),
            })?
        };
    }

    macro_rules! after_step {
        ($what:expr) => {{
            barrier().await;
            cx.sim_ms += 1;
            let fresh: Vec<NewDial> = std::mem::take(&mut net.lock().unwrap().new_dials);
            let mut new_by_node = [Vec::<SyncReason>::new(), Vec::<SyncReason>::new()];
            for nd in fresh {
                if nd.ns != ns || nd.peer != nodes[1 - nd.from].id {
                    return Err(Violation::new("dial/wrong-target", format!("node {} dialed an unexpected peer or document", nd.from)));
                }
                new_by_node[nd.from].push(nd.reason);
                cx.ev("dial", format!("n{} {:?}", nd.from, nd.reason));
                dials.push(RDial { id: dials.len(), from: nd.from, reason: nd.reason, a2b: nd.a2b, b2a: nd.b2a, bob_ends: Some(nd.bob_ends), delivered: false, dial_done: nd.dial_done, accept_done: Rc::new(Cell::new(false)), outcome: Rc::new(RefCell::new(None)), peer_open: vec![], callee_accepting: false });
                allowed_seen.push(false);
            }
            for d in dials.iter() {
                if let Some(o) = d.outcome.borrow().as_ref() {
                    if !allowed_seen[d.id] {
                        allowed_seen[d.id] = true;
                        cx.ev("answer", format!("d{} {o:?}", d.id));
                        match o {
                            AcceptOutcome::Allow => epoch[1 - d.from] += 1,
                            AcceptOutcome::Reject(AbortReason::AlreadySyncing) => cx.probe("declined_already_syncing"),
                            _ => {}
                        }
                    }
                }
            }
            let s0 = gone!(snapshot(&nodes[0], ns, nodes[1].id).await);
            let s1 = gone!(snapshot(&nodes[1], ns, nodes[0].id).await);
            let snaps = [s0, s1];
            cx.ev("state", format!("{:?} | {:?}", snaps[0].as_ref().map(|s| (&s.running, s.resync_requested)), snaps[1].as_ref().map(|s| (&s.running, s.resync_requested))));
            cx.state(crate::rng::fnv(format!("{:?}{:?}{}", snaps[0], snaps[1], dials.iter().filter(|d| !d.dial_done.get()).count()).as_bytes()));
            let in_progress: Vec<usize> = dials.iter().filter(|d| matches!(*d.outcome.borrow(), Some(AcceptOutcome::Allow)) && !d.dial_done.get() && !d.accept_done.get()).map(|d| d.id).collect();
            if in_progress.len() > 1 {
                return Err(Violation::new("two-sessions/overlap", format!("after {}: sessions of dials {:?} are both in progress (neither end of either has finished)", $what, in_progress)));
            }
            for x in 0..2 {
                let now_running = running(&snaps[x]).is_some();
                let resyncs = new_by_node[x].iter().filter(|r| **r == SyncReason::Resync).count();
                if was_running[x] && (!now_running || !new_by_node[x].is_empty()) {
                    if let Some(e) = resync_armed[x].take() {
                        if e == epoch[x] {
                            if resyncs != 1 {
                                return Err(Violation::new("resync-count/missing", format!("after {}: node {x} was told about news while a session was running; when that session finished {resyncs} follow-up dials were made (expected exactly one)", $what)));
                            }
                            cx.probe("resync_after_refused_report");
                        }
                    } else if resyncs > 0 && !ever_armed[x] {
                        return Err(Violation::new("resync-count/spurious", format!("after {}: node {x} made a follow-up dial although no news report was refused", $what)));
                    }
                }
                if resyncs > 1 {
                    return Err(Violation::new("resync-count/many", format!("after {}: node {x} made {resyncs} follow-up dials at once", $what)));
                }
                if !new_by_node[x].is_empty() {
                    epoch[x] += 1;
                }
                was_running[x] = now_running;
            }
            // mutual simultaneous dial: exactly one accepted
            for a in 0..dials.len() {
                for b in (a + 1)..dials.len() {
                    let (da, db) = (&dials[a], &dials[b]);
                    let (oa, ob) = (da.outcome.borrow().clone(), db.outcome.borrow().clone());
                    if da.from != db.from && oa.is_some() && ob.is_some() && da.peer_open == vec![db.id] && db.peer_open == vec![da.id] && !da.callee_accepting && !db.callee_accepting {
                        let allows = [oa, ob].iter().filter(|o| matches!(o, Some(AcceptOutcome::Allow))).count();
                        if allows != 1 {
                            return Err(Violation::new(if allows == 0 { "tiebreak/none-accepted" } else { "tiebreak/both-accepted" }, format!("nodes dialed each other simultaneously (dials {a} and {b}); {allows} of the two requests were accepted")));
                        }
                        cx.probe("simultaneous_dial_resolved");
                    }
                }
            }
            snaps
        }};
    }

    let _ = after_step!("start");

    // hand the callee its end of dial `id`: the real accept path
    let deliver = |d: &mut RDial, nodes: &[CNode], broken: bool| -> Option<ToLiveActor> {
        let (b2a_w, a2b_r) = d.bob_ends.take()?;
        let callee = &nodes[1 - d.from];
        let caller_id = nodes[d.from].id;
        let inbox = callee.tx.clone();
        let sync = callee.sync.clone();
        let outcome = d.outcome.clone();
        let done = d.accept_done.clone();
        d.delivered = true;
        if broken {
            d.a2b.cut_eof();
        }
        let fut = async move {
            let mut state = BobState::new(caller_id);
            let cb_outcome = outcome.clone();
            let res = state
                .run(b2a_w, a2b_r, sync, move |namespace, peer| {
                    let inbox = inbox.clone();
                    let cb_outcome = cb_outcome.clone();
                    AssertSend(async move {
                        let (reply, rx) = oneshot::channel();
                        inbox.send(ToLiveActor::AcceptSyncRequest { namespace, peer, reply }).await.ok();
                        let o = rx.await.unwrap_or(AcceptOutcome::Reject(AbortReason::InternalServerError));
                        *cb_outcome.borrow_mut() = Some(o.clone());
                        o
                    })
                })
                .await;
            // as handle_connection: the outcome is collected whatever `run` returned
            let out = state.into_outcome();
            done.set(true);
            match res {
                Ok(namespace) => Ok(SyncFinished { namespace, peer: caller_id, outcome: out, timings: Default::default() }),
                Err(e) => Err::<SyncFinished, AcceptError>(e),
            }
        };
        Some(ToLiveActor::VerifAccept { fut: Mutex::new(Some(Box::pin(AssertSend(fut)))) })
    };

    // one frame in whichever direction has one
    fn pump(d: &RDial) -> bool {
        let mut moved = false;
        for p in [&d.a2b, &d.b2a] {
            let held = p.held_bytes();
            if let Some(n) = first_frame_len(&held) {
                p.release(n);
                return true;
            } else if !held.is_empty() && p.writer_closed() {
                p.release(held.len());
                moved = true;
            }
            if p.release_eof_if_done() {
                moved = true;
            }
        }
        moved
    }

    let mut steps: Vec<RStep> = plan.steps.clone();
    let mut idx = 0usize;
    let mut cleanup = 0u32;
    loop {
        if idx >= steps.len() {
            let next = if let Some(d) = dials.iter().find(|d| !d.delivered && !d.dial_done.get()) {
                let _ = d;
                Some(RStep::Lose { d: 0 })
            } else if dials.iter().any(|d| d.delivered && (!d.dial_done.get() || !d.accept_done.get())) {
                Some(RStep::Pump { s: 0, frames: 8 })
            } else {
                None
            };
            match next {
                None => break,
                Some(s) => {
                    cleanup += 1;
                    if cleanup > 200 {
                        let open: Vec<String> = dials.iter().filter(|d| !d.dial_done.get() || !d.accept_done.get()).map(|d| format!("d{}:dial_done={} accept_done={} delivered={}", d.id, d.dial_done.get(), d.accept_done.get(), d.delivered)).collect();
                        return Err(Violation::new("progress/session-never-ends", format!("with every byte delivered the sessions {open:?} do not finish")));
                    }
                    steps.push(s);
                }
            }
        }
        let step = steps[idx].clone();
        let in_cleanup = idx >= plan.steps.len();
        idx += 1;
        match &step {
            RStep::NeighborUp { x } => {
                let x = *x as usize % 2;
                nodes[x].tx.send(ToLiveActor::NeighborUp { namespace: ns, peer: nodes[1 - x].id }).await.map_err(|_| Violation::new("actor-stopped/live", "live actor inbox closed".to_string()))?;
            }
            RStep::SyncReport { x, news } => {
                let x = *x as usize % 2;
                let snap = gone!(snapshot(&nodes[x], ns, nodes[1 - x].id).await);
                // the report names author 0 at timestamp 1000: news unless x already holds something that new
                let has_news = *news;
                if has_news && running(&snap).is_some() {
                    resync_armed[x] = Some(epoch[x]);
                    ever_armed[x] = true;
                }
                nodes[x].tx.send(ToLiveActor::IncomingSyncReport { from: nodes[1 - x].id, report: sync_report(ns, *news) }).await.map_err(|_| Violation::new("actor-stopped/live", "live actor inbox closed".to_string()))?;
            }
            RStep::Deliver { d } | RStep::Break { d } | RStep::DeliverNoReturn { d } => {
                let cand: Vec<usize> = dials.iter().filter(|d| !d.delivered && !d.dial_done.get()).map(|d| d.id).collect();
                if cand.is_empty() {
                    continue;
                }
                let id = cand[*d as usize % cand.len()];
                let from = dials[id].from;
                dials[id].peer_open = dials.iter().filter(|e| e.from != from && !e.dial_done.get()).map(|e| e.id).collect();
                dials[id].callee_accepting = dials.iter().any(|e| e.from == from && matches!(*e.outcome.borrow(), Some(AcceptOutcome::Allow)) && !e.accept_done.get());
                let broken = matches!(step, RStep::Break { .. });
                if broken {
                    cx.fault("request_broken");
                }
                if matches!(step, RStep::DeliverNoReturn { .. }) {
                    dials[id].b2a.reset();
                    cx.fault("reply_direction_dead_at_delivery");
                }
                if let Some(msg) = deliver(&mut dials[id], &nodes, broken) {
                    nodes[1 - from].tx.send(msg).await.map_err(|_| Violation::new("actor-stopped/live", "live actor inbox closed".to_string()))?;
                }
                barrier().await;
                if !broken {
                    // the request itself
                    pump(&dials[id]);
                    barrier().await;
                }
            }
            RStep::Lose { d } => {
                let cand: Vec<usize> = dials.iter().filter(|d| !d.delivered && !d.dial_done.get()).map(|d| d.id).collect();
                if cand.is_empty() {
                    continue;
                }
                let id = if in_cleanup { cand[0] } else { cand[*d as usize % cand.len()] };
                dials[id].a2b.reset();
                dials[id].b2a.reset();
                dials[id].delivered = true;
                dials[id].accept_done.set(true);
                dials[id].bob_ends = None;
                cx.fault("request_lost");
            }
            RStep::Pump { s, frames } => {
                let cand: Vec<usize> = dials.iter().filter(|d| d.delivered && (!d.dial_done.get() || !d.accept_done.get())).map(|d| d.id).collect();
                if cand.is_empty() {
                    continue;
                }
                let id = if in_cleanup { cand[0] } else { cand[*s as usize % cand.len()] };
                for _ in 0..*frames {
                    barrier().await;
                    if !pump(&dials[id]) {
                        break;
                    }
                }
            }
            RStep::Cut { s, which, reset } => {
                let cand: Vec<usize> = dials.iter().filter(|d| d.delivered && (!d.dial_done.get() || !d.accept_done.get())).map(|d| d.id).collect();
                if cand.is_empty() {
                    continue;
                }
                let id = cand[*s as usize % cand.len()];
                let pipes: Vec<&PipeCtl> = match which % 3 {
                    0 => vec![&dials[id].b2a],
                    1 => vec![&dials[id].a2b],
                    _ => vec![&dials[id].a2b, &dials[id].b2a],
                };
                for p in pipes {
                    if *reset { p.reset() } else { p.cut_eof() }
                }
                cx.fault(if *reset { "session_reset" } else { "session_cut" });
            }
            RStep::LocalFault { x, kind } => {
                let x = *x as usize % 2;
                let h = &nodes[x].sync;
                match kind % 4 {
                    0 => {
                        let _ = h.set_sync(ns, false).await;
                        cx.fault("local_sync_disabled_under_live_actor");
                    }
                    1 => {
                        let _ = h.set_sync(ns, true).await;
                    }
                    2 => {
                        let _ = h.close(ns).await;
                        cx.fault("local_replica_closed_under_live_actor");
                    }
                    _ => {
                        let _ = h.open(ns, iroh_docs::actor::OpenOpts::default().sync()).await;
                    }
                }
                cx.ev("local-fault", format!("n{x} kind={kind}"));
            }
            RStep::UnknownDocRequest { x } => {
                let x = *x as usize % 2;
                let (reply, rx) = oneshot::channel();
                nodes[x].tx.send(ToLiveActor::AcceptSyncRequest { namespace: unknown_ns, peer: nodes[1 - x].id, reply }).await.map_err(|_| Violation::new("actor-stopped/live", "live actor inbox closed".to_string()))?;
                let o = rx.await.map_err(|_| Violation::new("actor-stopped/live", "no answer to a sync request".to_string()))?;
                cx.probe("request_for_unknown_document");
                if !matches!(o, AcceptOutcome::Reject(AbortReason::NotFound)) {
                    return Err(Violation::new("notfound/answer", format!("a request for a document that is not being synced was answered with {o:?}")));
                }
            }
        }
        let _ = after_step!(format!("step {idx} {step:?}"));
    }

    // quiescence
    let snaps = after_step!("quiescence");
    for x in 0..2 {
        if let Some(o) = running(&snaps[x]) {
            let hist: Vec<String> = dials.iter().map(|d| format!("d{}:n{}:{:?}:{:?}", d.id, d.from, d.reason, d.outcome.borrow())).collect();
            return Err(Violation::new(format!("progress/stuck-{}", match o { iroh_docs::engine::Origin::Connect(_) => "dialing", iroh_docs::engine::Origin::Accept => "accepting" }), format!("nothing is in flight, but node {x} still marks the pair as busy ({o:?}); history {hist:?}")));
        }
    }
    for x in 0..2 {
        nodes[x].tx.send(ToLiveActor::NeighborUp { namespace: ns, peer: nodes[1 - x].id }).await.map_err(|_| Violation::new("actor-stopped/live", "live actor inbox closed".to_string()))?;
        barrier().await;
        let fresh: Vec<NewDial> = std::mem::take(&mut net.lock().unwrap().new_dials);
        if fresh.len() != 1 {
            return Err(Violation::new("progress/cannot-dial", format!("at quiescence a new neighbour event on node {x} produced {} dials", fresh.len())));
        }
        for nd in fresh {
            nd.a2b.reset();
            nd.b2a.reset();
        }
        barrier().await;
        barrier().await;
    }
    for x in 0..2 {
        let (reply, rx) = oneshot::channel();
        nodes[x].tx.send(ToLiveActor::AcceptSyncRequest { namespace: ns, peer: nodes[1 - x].id, reply }).await.map_err(|_| Violation::new("actor-stopped/live", "live actor inbox closed".to_string()))?;
        let o = rx.await.map_err(|_| Violation::new("actor-stopped/live", "no answer".to_string()))?;
        if !matches!(o, AcceptOutcome::Allow) {
            return Err(Violation::new("progress/cannot-accept", format!("at quiescence node {x} declines a fresh request: {o:?}")));
        }
    }
    Ok(())
}
