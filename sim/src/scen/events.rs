//! Scenario `events` (C12): one real store actor, 0-4 subscribers with channel capacities 1-32
//! that are drained at plan-chosen moments, paused, unsubscribed or dropped at any instant
//! (including while the actor is blocked sending to them); local writes, valid / superseded /
//! invalid remote inserts, reconciliation messages interleaved with local writes, policy changes.
//! Each subscriber must see exactly the applied entries, once, in application order.

use std::{future::Future, pin::Pin, task::{Context, Poll, RawWaker, RawWakerVTable, Waker}, time::Duration};

use iroh_docs::{actor::OpenOpts, ContentStatus, Event, SignedEntry, SyncOutcome};
use serde::{Deserialize, Serialize};

use crate::{
    model::RefDoc,
    msg::{MMessage, MSigned},
    node::Node,
    rng::Rng,
    runner::{barrier, block_on_sim, shrink_vec, Cx, Res, Scenario, Tier, Violation},
    scen::docs::{gen_policy, PolicySpec},
    sut::{ensure_doc, harness, Backend, Sut},
    world::{content, gen_ent, hexbytes, world, Ent, GenCfg},
};

pub struct Events {
    /// C15: judge only the download flag of remote events against the policy definition
    pub only_download: bool,
}

#[derive(Serialize, Deserialize, Clone, Debug)]
pub enum EStep {
    Subscribe { cap: u8, via_open: bool },
    /// register the sender of subscriber i once more (the same channel twice)
    SubscribeAgain { i: u8, via_open: bool },
    Unsubscribe { i: u8 },
    DropRx { i: u8 },
    Pause { i: u8 },
    Resume { i: u8 },
    Drain { i: u8, n: u8 },
    LocalInsert { a: u8, #[serde(with = "hexbytes")] k: Vec<u8>, c: u8 },
    LocalDelete { a: u8, #[serde(with = "hexbytes")] k: Vec<u8> },
    Remote { e: Ent, status: u8, peer: u8, bad_sig: bool },
    Message { es: Vec<Ent>, status: u8, peer: u8, bad: Option<u8> },
    SetPolicy { p: PolicySpec },
    /// traffic on a second document of the same store (own subscriber, own policy)
    OtherRemote { e: Ent, status: u8, peer: u8 },
    OtherLocal { a: u8, #[serde(with = "hexbytes")] k: Vec<u8>, c: u8 },
    OtherPolicy { p: PolicySpec },
    /// a third document that nothing is ever written to: subscriber `i`'s channel (a clone of
    /// its sender) is registered on it too by an open, or the document is closed completely.
    /// Neither may change what the subscriber is told about the document under test.
    SharedDoc { i: u8, close: bool },
    Tick { dt: u64 },
    Await,
    /// import a capability for the (open) document: a write capability upgrades a read-only one
    Import { write: bool },
    /// one more handle on the open document (without a subscriber), and its release
    OpenAgain,
    CloseExtra,
    /// the sync switch: remote inserts and reconciliation messages are refused while it is off
    SetSync { on: bool },
}

#[derive(Serialize, Deserialize, Clone, Debug)]
pub struct EventsPlan {
    pub seed: u64,
    /// the document starts with a read-only capability (local writes fail until an upgrade)
    #[serde(default)]
    pub start_read_only: bool,
    pub steps: Vec<EStep>,
}

fn noop_waker() -> Waker {
    fn clone(_: *const ()) -> RawWaker {
        RawWaker::new(std::ptr::null(), &VTABLE)
    }
    fn noop(_: *const ()) {}
    static VTABLE: RawWakerVTable = RawWakerVTable::new(clone, noop, noop, noop);
    unsafe { Waker::from_raw(RawWaker::new(std::ptr::null(), &VTABLE)) }
}

fn poll_once<T>(f: &mut Pin<Box<dyn Future<Output = T>>>) -> Poll<T> {
    let w = noop_waker();
    let mut cx = Context::from_waker(&w);
    f.as_mut().poll(&mut cx)
}

/// What the model expects a subscriber to see for one applied entry.
#[derive(Clone, Debug, PartialEq)]
struct Applied {
    entry: SignedEntry,
    local: bool,
    from: [u8; 32],
    status: u8,
    download: bool,
}

struct Sub {
    tx: async_channel::Sender<Event>,
    rx: Option<async_channel::Receiver<Event>>,
    got: Vec<Event>,
    paused: bool,
    /// how often the same channel was registered again
    again: u32,
    /// index into `applied` at which this subscriber joined / left
    start: usize,
    end: Option<usize>,
    dropped: bool,
}

impl Scenario for Events {
    type Plan = EventsPlan;
    fn name(&self) -> String {
        if self.only_download { "events-download-flag".into() } else { "events".into() }
    }

    fn gen(&self, rng: &mut Rng, tier: Tier) -> EventsPlan {
        let g = GenCfg { docs: 1, authors: 2, max_key_len: 2, ts_values: 6, marker_pct: 20, contents: 3 };
        let n = rng.urange(4, tier.pick(30, 45));
        let mut steps = Vec::new();
        let mut subs = 0u8;
        // half of the runs have traffic on a neighbouring document as well
        let other = rng.chance(1, 2);
        // a third of the runs: capability imports on the open document, additional handles
        let handles = rng.chance(1, 3);
        let start_read_only = handles && rng.chance(1, 2);
        for _ in 0..rng.urange(0, 2) {
            steps.push(EStep::Subscribe { cap: *rng.pick(&[1u8, 1, 2, 4, 32]), via_open: rng.chance(1, 2) });
            subs += 1;
        }
        for _ in 0..n {
            let i = if subs > 0 { rng.below(subs as u64) as u8 } else { 0 };
            let key = |rng: &mut Rng| crate::world::gen_key(rng, 2);
            let s = match rng.below(40) {
                0..=2 if subs < 4 => {
                    subs += 1;
                    EStep::Subscribe { cap: *rng.pick(&[1u8, 1, 2, 4, 32]), via_open: rng.chance(1, 3) }
                }
                3 => if rng.chance(1, 3) { EStep::SubscribeAgain { i, via_open: rng.chance(1, 3) } } else { EStep::Unsubscribe { i } },
                4 | 5 => EStep::DropRx { i },
                6 | 7 => EStep::Pause { i },
                8 => EStep::Resume { i },
                9 | 10 => EStep::Drain { i, n: rng.below(3) as u8 },
                11..=17 => EStep::LocalInsert { a: rng.below(2) as u8, k: key(rng), c: rng.range(1, 3) as u8 },
                18..=19 => EStep::LocalDelete { a: rng.below(2) as u8, k: key(rng) },
                20..=25 => EStep::Remote { e: gen_ent(rng, &g), status: rng.below(3) as u8, peer: rng.below(3) as u8, bad_sig: rng.chance(1, 6) },
                26..=31 => {
                    let es: Vec<Ent> = (0..rng.urange(1, 4)).map(|_| gen_ent(rng, &g)).collect();
                    let bad = if rng.chance(1, 5) { Some(rng.below(es.len() as u64) as u8) } else { None };
                    EStep::Message { es, status: rng.below(3) as u8, peer: rng.below(3) as u8, bad }
                }
                33 if (other || handles) && !self.only_download => EStep::SharedDoc { i: rng.below(4) as u8, close: rng.chance(1, 2) },
                32 | 33 => EStep::SetPolicy { p: gen_policy(rng) },
                38 if handles => match rng.below(6) {
                    0 | 1 => EStep::Import { write: rng.chance(2, 3) },
                    2 => EStep::OpenAgain,
                    3 => EStep::CloseExtra,
                    _ => EStep::SetSync { on: rng.chance(1, 2) },
                },
                36 | 37 if other => match rng.below(4) {
                    0 => EStep::OtherLocal { a: rng.below(2) as u8, k: key(rng), c: rng.range(1, 3) as u8 },
                    1 => EStep::OtherPolicy { p: gen_policy(rng) },
                    _ => EStep::OtherRemote { e: gen_ent(rng, &g), status: rng.below(3) as u8, peer: rng.below(3) as u8 },
                },
                34 | 35 if self.only_download => EStep::SetPolicy { p: gen_policy(rng) },
                34 | 35 => EStep::Tick { dt: rng.range(1, 4) },
                _ => EStep::Await,
            };
            steps.push(s);
        }
        steps.push(EStep::Await);
        EventsPlan { seed: rng.next_u64(), start_read_only, steps }
    }

    fn exec(&self, plan: &EventsPlan, cx: &mut Cx) -> Res {
        block_on_sim(plan.seed, run(plan, cx, self.only_download))
    }

    fn shrink(&self, plan: &EventsPlan) -> Vec<EventsPlan> {
        shrink_vec(&plan.steps).into_iter().map(|c| EventsPlan { seed: plan.seed, start_read_only: plan.start_read_only, steps: c }).collect()
    }

    fn components(&self) -> (Vec<&'static str>, Vec<&'static str>) {
        (
            vec!["sync::Subscribers (subscribe, unsubscribe, send)", "sync::Replica::insert_entry / sync_process_message (event after successful put only)", "ranger::process_message on_insert callback", "store::DownloadPolicy::matches", "actor::SyncHandle (subscribe/unsubscribe/open with subscribe)", "store::fs"],
            vec!["subscriber tasks (the driver drains, pauses and drops receivers at plan-chosen instants)", "peer (entries and messages crafted through the public encoding)", "wall clock", "store actor thread (local task)"],
        )
    }

    fn rule(&self) -> String {
        "A run is 4-45 steps on one document (in half of the runs a neighbouring document of the same store, with its own subscriber and policy, takes remote and local writes and policy changes in between and is judged the same way): subscribe (channel capacity 1-32, via open or subscribe), unsubscribe, drop a receiver (also while the actor is blocked sending to it), pause/resume/drain, local inserts and deletions, valid/superseded/badly-signed remote inserts, reconciliation messages of 1-4 entries (optionally one forged) interleaved with local writes, policy changes, clock ticks; in a third of the runs capability imports on the open document (which may start read-only, so that a write capability is an upgrade) and additional handles that are opened and released. Non-trivial: a receiver was dropped/unsubscribed/paused, the actor blocked on a full channel, or an entry was rejected.".into()
    }
}

fn status_of(s: u8) -> ContentStatus {
    match s {
        0 => ContentStatus::Missing,
        1 => ContentStatus::Incomplete,
        _ => ContentStatus::Complete,
    }
}

fn check_sub(i: usize, s: &Sub, applied: &[Applied], ns: iroh_docs::NamespaceId, final_check: bool, only_download: bool) -> Res {
    if only_download {
        // the flag of every remote event must be what the policy in force says for its key
        for ev in &s.got {
            if let Event::RemoteInsert { entry, should_download, .. } = ev {
                if let Some(w) = applied.iter().find(|a| &a.entry == entry && !a.local) {
                    if *should_download != w.download {
                        return Err(Violation::new("download-flag/mismatch", format!("subscriber {i}: event for key {} has should_download={should_download}, the policy says {}", hex::encode(entry.key()), w.download)));
                    }
                }
            }
        }
        return Ok(());
    }
    let end = s.end.unwrap_or(applied.len());
    let want = &applied[s.start.min(end)..end];
    // A channel that was registered more than once: the statement does not say whether it then
    // counts as one subscriber or as several, so between one and that many consecutive copies
    // of each event are accepted (an applied entry is never applied twice, so copies are
    // adjacent and unambiguous). Everything else - order, payload, nothing for entries that were
    // not applied, nothing after an acknowledged unsubscribe - is judged as usual.
    let deduped: Vec<Event>;
    let got: &Vec<Event> = if s.again > 0 {
        let mut v: Vec<Event> = Vec::new();
        let mut run = 0u32;
        for ev in &s.got {
            if v.last().map(|l| ev_entry(l) == ev_entry(ev)).unwrap_or(false) && run <= s.again {
                run += 1;
                continue;
            }
            run = 1;
            v.push(ev.clone());
        }
        deduped = v;
        &deduped
    } else {
        &s.got
    };
    // what was received must be a prefix of the expected sequence; at the final check of a live
    // subscriber it must be all of it
    for (j, ev) in got.iter().enumerate() {
        let Some(w) = want.get(j) else {
            return Err(Violation::new("spurious/extra", format!("subscriber {i} received {} events but only {} entries were applied while it was subscribed; extra: {:?}", got.len(), want.len(), short_ev(ev))));
        };
        let (entry, local, from, status, download, evns) = match ev {
            Event::LocalInsert { namespace, entry } => (entry, true, [0u8; 32], 0u8, true, *namespace),
            Event::RemoteInsert { namespace, entry, from, should_download, remote_content_status } => (entry, false, *from, match remote_content_status { ContentStatus::Missing => 0, ContentStatus::Incomplete => 1, ContentStatus::Complete => 2 }, *should_download, *namespace),
        };
        if entry != &w.entry {
            // classify: duplicate of an earlier one, or one that was never applied, or reordered
            let class = if j > 0 && got[..j].iter().any(|e| ev_entry(e) == entry) { "duplicate/event" } else if !want.iter().any(|a| &a.entry == entry) { "spurious/not-applied" } else { "order/mismatch" };
            return Err(Violation::new(class, format!("subscriber {i}: event {j} is for {:?}, the {j}-th applied entry is {:?}", entry.entry().id(), w.entry.entry().id())));
        }
        if evns != ns {
            return Err(Violation::new("payload/namespace", format!("subscriber {i}: event {j} names another document")));
        }
        if local != w.local {
            return Err(Violation::new("payload/origin", format!("subscriber {i}: event {j} is marked local={local}, the entry was applied with local={}", w.local)));
        }
        if !local {
            if from != w.from {
                return Err(Violation::new("payload/peer", format!("subscriber {i}: event {j} names the wrong providing peer")));
            }
            if status != w.status {
                return Err(Violation::new("payload/content-status", format!("subscriber {i}: event {j} carries content status {status}, the peer said {}", w.status)));
            }
            if download != w.download {
                return Err(Violation::new("download-flag/mismatch", format!("subscriber {i}: event {j} for key {} has should_download={download}, the policy says {}", hex::encode(entry.key()), w.download)));
            }
        }
    }
    if final_check && !s.dropped && s.end.is_none() && got.len() < want.len() {
        return Err(Violation::new("missing/event", format!("subscriber {i} received {} events, {} entries were applied while it was subscribed; first missing: {:?}", got.len(), want.len(), want[got.len()].entry.entry().id())));
    }
    if final_check && s.end.is_some() && !s.dropped && got.len() < want.len() {
        // unsubscribed: everything applied before the unsubscribe request must have arrived
        return Err(Violation::new("missing/event", format!("subscriber {i} (unsubscribed) received {} of {} events", got.len(), want.len())));
    }
    Ok(())
}

fn ev_entry(e: &Event) -> &SignedEntry {
    match e {
        Event::LocalInsert { entry, .. } => entry,
        Event::RemoteInsert { entry, .. } => entry,
    }
}

fn short_ev(e: &Event) -> String {
    format!("{:?}", ev_entry(e).entry().id())
}

async fn run(plan: &EventsPlan, cx: &mut Cx, only_download: bool) -> Res {
    let w = world();
    let ns = w.doc_id(0);
    let mut sut = Sut::new(Backend::Mem)?;
    if plan.start_read_only {
        sut.store().import_namespace(iroh_docs::Capability::Read(ns)).map_err(|e| harness(format!("{e:#}")))?;
    } else {
        ensure_doc(sut.store(), 0)?;
    }
    ensure_doc(sut.store(), 1)?;
    ensure_doc(sut.store(), 2)?;
    for a in 0..2 {
        sut.store().import_author(w.authors[a].clone()).map_err(|e| harness(format!("{e:#}")))?;
    }
    let node = Node::start(sut.store.take().unwrap());
    let mut clock = 100u64;
    node.set_clock(clock);
    let h = node.handle.clone();
    h.open(ns, OpenOpts::default().sync()).await.map_err(|e| harness(format!("open: {e:#}")))?;

    let mut model = RefDoc::default();
    let mut can_write = !plan.start_read_only;
    let mut sync_on = true;
    let mut extra_handles = 0u32;
    let mut policy: Option<PolicySpec> = None;
    let mut applied: Vec<Applied> = Vec::new();
    let mut subs: Vec<Sub> = Vec::new();
    // the neighbouring document: opened and subscribed lazily by the first step that uses it
    let ns1 = w.doc_id(1);
    let mut model1 = RefDoc::default();
    let mut policy1: Option<PolicySpec> = None;
    let mut applied1: Vec<Applied> = Vec::new();
    let mut other_sub: Option<Sub> = None;
    let ns2 = w.doc_id(2);
    let mut shared_handles = 0u32;
    type PendFut = Pin<Box<dyn Future<Output = Result<(), String>>>>;
    let mut pending: Vec<(String, PendFut, Option<bool>)> = Vec::new();
    let mut policy_reads: Vec<usize> = Vec::new();

    // drive until all pending replies are in; drain non-paused subscribers in between
    macro_rules! settle {
        () => {{
            let mut rounds = 0;
            loop {
                barrier().await;
                cx.sim_ms += 1;
                let mut progressed = false;
                for s in subs.iter_mut() {
                    if s.paused {
                        continue;
                    }
                    if let Some(rx) = &s.rx {
                        while let Ok(ev) = rx.try_recv() {
                            s.got.push(ev);
                            progressed = true;
                        }
                    }
                }
                if let Some(s) = other_sub.as_mut() {
                    if let Some(rx) = &s.rx {
                        while let Ok(ev) = rx.try_recv() {
                            s.got.push(ev);
                            progressed = true;
                        }
                    }
                }
                let mut still = Vec::new();
                for (name, mut fut, expect_ok) in pending.drain(..) {
                    match poll_once(&mut fut) {
                        Poll::Ready(r) => {
                            progressed = true;
                            if name == "get-policy" {
                                if let Err(e) = &r {
                                    return Err(Violation::new("persist/policy-read-back", format!("the download policy read through the store actor right after setting it differs: {e}")));
                                }
                            }
                            if let (Some(ok), false) = (expect_ok, only_download) {
                                if r.is_ok() != ok {
                                    return Err(Violation::new(format!("result/{name}"), format!("{name} returned ok={}, the model says ok={ok}: {r:?}", r.is_ok())));
                                }
                            }
                        }
                        Poll::Pending => still.push((name, fut, expect_ok)),
                    }
                }
                pending = still;
                if pending.is_empty() && !progressed {
                    break;
                }
                if !progressed {
                    // the actor is blocked sending to a paused subscriber with a full channel
                    if subs.iter().any(|s| s.paused && s.rx.is_some()) {
                        cx.probe("actor_blocked_on_paused_subscriber");
                        for s in subs.iter_mut() {
                            s.paused = false;
                        }
                        continue;
                    }
                    rounds += 1;
                    if rounds > 50 {
                        let names: Vec<&String> = pending.iter().map(|p| &p.0).collect();
                        return Err(Violation::new("hang/request", format!("requests {names:?} never complete although every subscriber is drained")));
                    }
                    tokio::time::sleep(Duration::from_millis(10)).await;
                } else {
                    rounds = 0;
                }
            }
        }};
    }

    for step in &plan.steps {
        match step {
            EStep::Subscribe { cap, via_open } => {
                let (tx, rx) = async_channel::bounded::<Event>((*cap).max(1) as usize);
                let h2 = h.clone();
                let tx2 = tx.clone();
                let via = *via_open;
                let fut: PendFut = Box::pin(async move {
                    if via {
                        h2.open(ns, OpenOpts::default().subscribe(tx2)).await.map_err(|e| format!("{e:#}"))
                    } else {
                        h2.subscribe(ns, tx2).await.map_err(|e| format!("{e:#}"))
                    }
                });
                let mut fut = fut;
                let _ = poll_once(&mut fut);
                pending.push(("subscribe".into(), fut, Some(true)));
                subs.push(Sub { tx, rx: Some(rx), got: vec![], paused: false, again: 0, start: applied.len(), end: None, dropped: false });
                cx.ev("subscribe", format!("cap={cap} via_open={via_open}"));
            }
            EStep::SubscribeAgain { i, via_open } => {
                let Some(s) = subs.get_mut(*i as usize) else { continue };
                if s.end.is_some() || s.dropped {
                    continue;
                }
                let h2 = h.clone();
                let tx2 = s.tx.clone();
                let via = *via_open;
                let mut fut: PendFut = Box::pin(async move {
                    if via {
                        h2.open(ns, OpenOpts::default().subscribe(tx2)).await.map_err(|e| format!("{e:#}"))
                    } else {
                        h2.subscribe(ns, tx2).await.map_err(|e| format!("{e:#}"))
                    }
                });
                let _ = poll_once(&mut fut);
                pending.push(("subscribe-again".into(), fut, Some(true)));
                s.again += 1;
                cx.probe("same_channel_registered_twice");
                cx.ev("subscribe-again", format!("{i} via_open={via_open}"));
            }
            EStep::Unsubscribe { i } => {
                let Some(s) = subs.get_mut(*i as usize) else { continue };
                if s.end.is_some() || s.dropped {
                    continue;
                }
                let h2 = h.clone();
                let tx2 = s.tx.clone();
                let mut fut: PendFut = Box::pin(async move { h2.unsubscribe(ns, tx2).await.map_err(|e| format!("{e:#}")) });
                let _ = poll_once(&mut fut);
                pending.push(("unsubscribe".into(), fut, Some(true)));
                s.end = Some(applied.len());
                cx.fault("unsubscribe");
                cx.ev("unsubscribe", format!("{i}"));
            }
            EStep::DropRx { i } => {
                let Some(s) = subs.get_mut(*i as usize) else { continue };
                if s.rx.is_none() {
                    continue;
                }
                // what is still buffered is lost with the receiver
                s.rx = None;
                s.dropped = true;
                if s.end.is_none() {
                    s.end = Some(applied.len());
                }
                if !pending.is_empty() {
                    cx.fault("receiver_dropped_while_requests_in_flight");
                } else {
                    cx.fault("receiver_dropped");
                }
                cx.ev("drop-rx", format!("{i}"));
            }
            EStep::Pause { i } => {
                if let Some(s) = subs.get_mut(*i as usize) {
                    if s.rx.is_some() {
                        s.paused = true;
                        cx.fault("subscriber_paused");
                    }
                }
            }
            EStep::Resume { i } => {
                if let Some(s) = subs.get_mut(*i as usize) {
                    s.paused = false;
                }
            }
            EStep::Drain { i, n } => {
                barrier().await;
                if let Some(s) = subs.get_mut(*i as usize) {
                    if let Some(rx) = &s.rx {
                        let mut left = if *n == 0 { usize::MAX } else { *n as usize };
                        while left > 0 {
                            match rx.try_recv() {
                                Ok(ev) => s.got.push(ev),
                                Err(_) => break,
                            }
                            left -= 1;
                        }
                    }
                }
            }
            EStep::LocalInsert { a, k, c } => {
                let e = Ent { d: 0, a: *a, k: k.clone(), ts: clock, c: *c };
                let ok = can_write && model.offer(&e).is_some();
                if ok {
                    applied.push(Applied { entry: e.signed(), local: true, from: [0; 32], status: 0, download: true });
                } else if !can_write {
                    cx.probe("local_write_refused_read_only");
                } else {
                    cx.probe("rejected_superseded");
                }
                let (hash, len) = content(*c);
                let h2 = h.clone();
                let (a2, k2) = (w.author_id(*a), k.clone());
                let mut fut: PendFut = Box::pin(async move { h2.insert_local(ns, a2, k2.into(), hash, len).await.map_err(|e| format!("{e:#}")) });
                let _ = poll_once(&mut fut);
                pending.push(("insert-local".into(), fut, Some(ok)));
                cx.ev("local", e.short());
            }
            EStep::LocalDelete { a, k } => {
                let e = Ent { d: 0, a: *a, k: k.clone(), ts: clock, c: 0 };
                let ok = can_write && model.offer(&e).is_some();
                if ok {
                    applied.push(Applied { entry: e.signed(), local: true, from: [0; 32], status: 0, download: true });
                } else if !can_write {
                    cx.probe("local_write_refused_read_only");
                } else {
                    cx.probe("rejected_superseded");
                }
                let h2 = h.clone();
                let (a2, k2) = (w.author_id(*a), k.clone());
                let mut fut: PendFut = Box::pin(async move { h2.delete_prefix(ns, a2, k2.into()).await.map(|_| ()).map_err(|e| format!("{e:#}")) });
                let _ = poll_once(&mut fut);
                pending.push(("delete-prefix".into(), fut, Some(ok)));
                cx.ev("delete", e.short());
            }
            EStep::Remote { e, status, peer, bad_sig } => {
                let mut e = e.clone();
                e.d = 0;
                let from = w.peers[*peer as usize];
                let mut signed = e.signed();
                let mut ok = false;
                if *bad_sig {
                    let mut m = MSigned::from_real(&signed);
                    m.signature.author.0[3] ^= 0x10;
                    signed = m.to_real().unwrap_or(signed);
                    cx.probe("rejected_invalid");
                    cx.fault("corrupt_signature");
                } else if !sync_on {
                    cx.probe("remote_insert_refused_sync_off");
                } else if model.offer(&e).is_some() {
                    ok = true;
                    let download = policy.as_ref().map(|p| p.selects(&e.k)).unwrap_or(true);
                    applied.push(Applied { entry: signed.clone(), local: false, from, status: *status, download });
                } else {
                    cx.probe("rejected_superseded");
                }
                let h2 = h.clone();
                let st = status_of(*status);
                let mut fut: PendFut = Box::pin(async move { h2.insert_remote(ns, signed, from, st).await.map_err(|e| format!("{e:#}")) });
                let _ = poll_once(&mut fut);
                pending.push(("insert-remote".into(), fut, Some(ok)));
                cx.ev("remote", format!("{} bad={bad_sig}", e.short()));
            }
            EStep::Message { es, status, peer, bad } => {
                let from = w.peers[*peer as usize];
                let mut values = Vec::new();
                for (j, e) in es.iter().enumerate() {
                    let mut e = e.clone();
                    e.d = 0;
                    let mut signed = e.signed();
                    if *bad == Some(j as u8) {
                        let mut m = MSigned::from_real(&signed);
                        m.signature.namespace.1[5] ^= 0x01;
                        signed = m.to_real().unwrap_or(signed);
                        cx.probe("rejected_invalid");
                        cx.fault("corrupt_signature");
                    } else if !sync_on {
                        // the whole message is refused
                    } else if model.offer(&e).is_some() {
                        let download = policy.as_ref().map(|p| p.selects(&e.k)).unwrap_or(true);
                        // every entry of the message carries its own content status
                        applied.push(Applied { entry: signed.clone(), local: false, from, status: ((*status as usize + j) % 3) as u8, download });
                    } else {
                        cx.probe("rejected_superseded");
                    }
                    values.push(signed);
                }
                let mut mm = MMessage::carrying(values);
                if let crate::msg::MPart::RangeItem(it) = &mut mm.parts[0] {
                    for (j, v) in it.values.iter_mut().enumerate() {
                        v.1 = status_of(((*status as usize + j) % 3) as u8);
                    }
                }
                let msg = mm.to_real();
                let h2 = h.clone();
                let mut fut: PendFut = Box::pin(async move { h2.sync_process_message(ns, msg, from, SyncOutcome::default()).await.map(|_| ()).map_err(|e| format!("{e:#}")) });
                let _ = poll_once(&mut fut);
                pending.push(("sync-process".into(), fut, Some(sync_on)));
                cx.ev("message", format!("{} entries bad={bad:?}", es.len()));
            }
            EStep::SetPolicy { p } => {
                // policy changes take effect for later requests (FIFO)
                let h2 = h.clone();
                let real = p.real();
                let mut fut: PendFut = Box::pin(async move { h2.set_download_policy(ns, real).await.map_err(|e| format!("{e:#}")) });
                let _ = poll_once(&mut fut);
                pending.push(("set-policy".into(), fut, Some(true)));
                policy = Some(p.clone());
                cx.ev("policy", format!("{p:?}"));
                if only_download {
                    // the policy read back through the actor is the one just set (requests are FIFO)
                    let h3 = h.clone();
                    let want = postcard::to_stdvec(&p.real()).unwrap_or_default();
                    let mut fut: PendFut = Box::pin(async move {
                        match h3.get_download_policy(ns).await {
                            Ok(got) if postcard::to_stdvec(&got).unwrap_or_default() == want => Ok(()),
                            Ok(got) => Err(format!("read back {got:?}")),
                            Err(e) => Err(format!("{e:#}")),
                        }
                    });
                    let _ = poll_once(&mut fut);
                    pending.push(("get-policy".into(), fut, None));
                    policy_reads.push(pending.len() - 1);
                }
            }
            EStep::SharedDoc { i, close } => {
                let h2 = h.clone();
                if *close {
                    if shared_handles > 0 {
                        shared_handles -= 1;
                        let mut fut: PendFut = Box::pin(async move { h2.close(ns2).await.map(|_| ()).map_err(|e| format!("{e:#}")) });
                        let _ = poll_once(&mut fut);
                        pending.push(("close-shared-document".into(), fut, Some(true)));
                        if shared_handles == 0 {
                            cx.fault("document_sharing_a_subscriber_channel_closed");
                        }
                        cx.ev("shared-close", format!("{shared_handles}"));
                    }
                } else if let Some(s) = subs.get(*i as usize % subs.len().max(1)) {
                    if s.rx.is_some() && !s.dropped && s.end.is_none() {
                        let tx = s.tx.clone();
                        shared_handles += 1;
                        let mut fut: PendFut = Box::pin(async move { h2.open(ns2, OpenOpts::default().subscribe(tx)).await.map_err(|e| format!("{e:#}")) });
                        let _ = poll_once(&mut fut);
                        pending.push(("open-shared-document".into(), fut, Some(true)));
                        cx.probe("subscriber_channel_shared_with_another_document");
                        cx.ev("shared-open", format!("sub {i}"));
                    }
                }
            }
            EStep::OtherRemote { .. } | EStep::OtherLocal { .. } | EStep::OtherPolicy { .. } => {
                if other_sub.is_none() {
                    let (tx, rx) = async_channel::bounded::<Event>(64);
                    // queued like every other request (the actor may be blocked on a paused subscriber)
                    let (h3, tx3) = (h.clone(), tx.clone());
                    let mut fut: PendFut = Box::pin(async move { h3.open(ns1, OpenOpts::default().sync().subscribe(tx3)).await.map_err(|e| format!("{e:#}")) });
                    let _ = poll_once(&mut fut);
                    pending.push(("open-neighbour".into(), fut, Some(true)));
                    other_sub = Some(Sub { tx, rx: Some(rx), got: vec![], paused: false, again: 0, start: 0, end: None, dropped: false });
                    cx.probe("neighbour_document_in_use");
                }
                let h2 = h.clone();
                match step {
                    EStep::OtherRemote { e, status, peer } => {
                        let mut e = e.clone();
                        e.d = 1;
                        let from = w.peers[*peer as usize];
                        let signed = e.signed();
                        let ok = model1.offer(&e).is_some();
                        if ok {
                            let download = policy1.as_ref().map(|p| p.selects(&e.k)).unwrap_or(true);
                            applied1.push(Applied { entry: signed.clone(), local: false, from, status: *status, download });
                        }
                        let st = status_of(*status);
                        let mut fut: PendFut = Box::pin(async move { h2.insert_remote(ns1, signed, from, st).await.map_err(|e| format!("{e:#}")) });
                        let _ = poll_once(&mut fut);
                        pending.push(("insert-remote-neighbour".into(), fut, Some(ok)));
                        cx.ev("other-remote", e.short());
                    }
                    EStep::OtherLocal { a, k, c } => {
                        let e = Ent { d: 1, a: *a, k: k.clone(), ts: clock, c: *c };
                        let ok = model1.offer(&e).is_some();
                        if ok {
                            applied1.push(Applied { entry: e.signed(), local: true, from: [0; 32], status: 0, download: true });
                        }
                        let (hash, len) = content(*c);
                        let (a2, k2) = (w.author_id(*a), k.clone());
                        let mut fut: PendFut = Box::pin(async move { h2.insert_local(ns1, a2, k2.into(), hash, len).await.map_err(|e| format!("{e:#}")) });
                        let _ = poll_once(&mut fut);
                        pending.push(("insert-local-neighbour".into(), fut, Some(ok)));
                        cx.ev("other-local", e.short());
                    }
                    EStep::OtherPolicy { p } => {
                        let real = p.real();
                        let mut fut: PendFut = Box::pin(async move { h2.set_download_policy(ns1, real).await.map_err(|e| format!("{e:#}")) });
                        let _ = poll_once(&mut fut);
                        pending.push(("set-policy-neighbour".into(), fut, Some(true)));
                        policy1 = Some(p.clone());
                        cx.ev("other-policy", format!("{p:?}"));
                    }
                    _ => unreachable!(),
                }
            }
            EStep::Import { write } => {
                let cap = if *write { iroh_docs::Capability::Write(w.docs[0].clone()) } else { iroh_docs::Capability::Read(ns) };
                let h2 = h.clone();
                let mut fut: PendFut = Box::pin(async move { h2.import_namespace(cap).await.map(|_| ()).map_err(|e| format!("{e:#}")) });
                let _ = poll_once(&mut fut);
                pending.push(("import-capability".into(), fut, Some(true)));
                if *write && !can_write {
                    can_write = true;
                    cx.probe("capability_upgraded_while_open_and_subscribed");
                }
                cx.ev("import", format!("write={write}"));
            }
            EStep::SetSync { on } => {
                let h2 = h.clone();
                let on2 = *on;
                let mut fut: PendFut = Box::pin(async move { h2.set_sync(ns, on2).await.map_err(|e| format!("{e:#}")) });
                let _ = poll_once(&mut fut);
                pending.push(("set-sync".into(), fut, Some(true)));
                sync_on = *on;
                cx.ev("set-sync", format!("{on}"));
            }
            EStep::OpenAgain => {
                let h2 = h.clone();
                let mut fut: PendFut = Box::pin(async move { h2.open(ns, OpenOpts::default()).await.map_err(|e| format!("{e:#}")) });
                let _ = poll_once(&mut fut);
                pending.push(("open-again".into(), fut, Some(true)));
                extra_handles += 1;
                cx.ev("open-again", String::new());
            }
            EStep::CloseExtra => {
                if extra_handles == 0 {
                    continue;
                }
                extra_handles -= 1;
                let h2 = h.clone();
                let mut fut: PendFut = Box::pin(async move {
                    match h2.close(ns).await {
                        Ok(false) => Ok(()),
                        Ok(true) => Err("close of one of several handles reported the document closed".to_string()),
                        Err(e) => Err(format!("{e:#}")),
                    }
                });
                let _ = poll_once(&mut fut);
                pending.push(("close-extra".into(), fut, Some(true)));
                cx.probe("extra_handle_released_with_subscribers");
                cx.ev("close-extra", String::new());
            }
            EStep::Tick { dt } => {
                // a tick must not overtake requests already queued (they read the clock when processed)
                settle!();
                clock += dt;
                node.set_clock(clock);
            }
            EStep::Await => {
                settle!();
                for (i, s) in subs.iter().enumerate() {
                    check_sub(i, s, &applied, ns, false, only_download)?;
                }
                if let Some(s) = &other_sub {
                    check_sub(100, s, &applied1, ns1, false, only_download)?;
                }
            }
        }
    }
    settle!();
    // final: drain everything that is left and compare completely
    for s in subs.iter_mut() {
        s.paused = false;
        if let Some(rx) = &s.rx {
            while let Ok(ev) = rx.try_recv() {
                s.got.push(ev);
            }
        }
    }
    for (i, s) in subs.iter().enumerate() {
        check_sub(i, s, &applied, ns, true, only_download)?;
    }
    if let Some(s) = other_sub.as_mut() {
        if let Some(rx) = &s.rx {
            while let Ok(ev) = rx.try_recv() {
                s.got.push(ev);
            }
        }
        // subscriber 100 = the one on the neighbouring document
        check_sub(100, s, &applied1, ns1, true, only_download)?;
    }
    let _ = &policy_reads;
    cx.state(crate::rng::fnv(format!("{}:{}", applied.len(), subs.len()).as_bytes()));
    let _ = node.stop().await?;
    Ok(())
}
