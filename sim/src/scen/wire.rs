//! Scenario `wire` (C09a): real protocol messages are framed by the real codec into one byte
//! stream that reaches the real frame reader through a SimPipe under plan-chosen chunking,
//! truncation after any byte, oversized length prefixes and single-byte corruption.
//!
//! Scenario `decoders` (pure part of C09, C13, C15 — input generation, *not* simulation):
//! round-trips and hostile bytes for signed entries, author heads, tickets, capabilities,
//! filters and policies, plus the pinned byte encodings.

use std::{cell::RefCell, rc::Rc};

use iroh_docs::{
    net::codec_verif::{WireMessage, WireReader, WireWriter},
    store::{DownloadPolicy, FilterKind},
    Author, AuthorHeads, Capability, DocTicket, NamespaceSecret, SignedEntry,
};
use serde::{Deserialize, Serialize};

use crate::{
    msg::{MFp, MMessage, MPart, MRange, MRangeFp, MRangeItem},
    pipe::pipe,
    rng::Rng,
    runner::{barrier, block_on_sim, shrink_vec, Cx, Res, Scenario, Tier, Violation},
    scen::docs::{gen_policy, FilterSpec, PolicySpec},
    sut::harness,
    world::{gen_ent, gen_key, hexbytes, world, Ent, GenCfg},
};

pub struct Wire;

#[derive(Serialize, Deserialize, Clone, Debug)]
pub enum PartSpec {
    Fp { xa: u8, #[serde(with = "hexbytes")] xk: Vec<u8>, ya: u8, #[serde(with = "hexbytes")] yk: Vec<u8>, fill: u8 },
    Item { xa: u8, #[serde(with = "hexbytes")] xk: Vec<u8>, es: Vec<Ent>, have_local: bool, status: u8 },
}

#[derive(Serialize, Deserialize, Clone, Debug)]
pub enum WMsg {
    Init { known: bool, parts: Vec<PartSpec> },
    Sync { parts: Vec<PartSpec> },
    Abort { reason: u8 },
    /// a Sync message carrying one entry whose key has this many bytes (messages of tens of
    /// kilobytes to tens of megabytes: well below the frame size limit, far above the usual size)
    Big { len: u32 },
}

#[derive(Serialize, Deserialize, Clone, Debug)]
pub struct WirePlan {
    pub seed: u64,
    pub msgs: Vec<WMsg>,
    /// release sizes, used cyclically
    pub chunks: Vec<usize>,
    pub read_chunk: usize,
    /// end of stream after this many bytes
    pub cut: Option<usize>,
    /// xor this byte at this position of the stream
    pub corrupt: Option<(usize, u8)>,
    /// replace the length prefix of message i by one beyond the limit
    pub oversize_at: Option<usize>,
    /// replace the length prefix of message i by a smaller one (seed for the new length): the
    /// frame as delimited by its prefix is then a truncated message, with more bytes behind it
    #[serde(default)]
    pub understate_at: Option<(usize, u16)>,
}

fn real_msg(parts: &[PartSpec]) -> iroh_docs::sync::ProtocolMessage {
    let w = world();
    let id = |a: u8, k: &[u8]| iroh_docs::sync::RecordIdentifier::new(w.doc_id(0), w.author_id(a % 4), k);
    let status = |s: u8| match s % 3 { 0 => iroh_docs::ContentStatus::Missing, 1 => iroh_docs::ContentStatus::Incomplete, _ => iroh_docs::ContentStatus::Complete };
    let parts = parts
        .iter()
        .map(|p| match p {
            PartSpec::Fp { xa, xk, ya, yk, fill } => MPart::RangeFingerprint(MRangeFp { range: MRange { x: id(*xa, xk), y: id(*ya, yk) }, fingerprint: MFp([*fill; 32]) }),
            PartSpec::Item { xa, xk, es, have_local, status: s } => MPart::RangeItem(MRangeItem {
                range: MRange { x: id(*xa, xk), y: id(*xa, xk) },
                values: es.iter().map(|e| { let mut e = e.clone(); e.d = 0; (e.signed(), status(*s)) }).collect(),
                have_local: *have_local,
            }),
        })
        .collect();
    MMessage { parts }.to_real()
}

fn to_wire(m: &WMsg) -> WireMessage {
    let w = world();
    match m {
        WMsg::Init { known, parts } => WireMessage::Init { namespace: if *known { w.doc_id(0) } else { w.doc_id(2) }, message: real_msg(parts) },
        WMsg::Sync { parts } => WireMessage::Sync(real_msg(parts)),
        WMsg::Big { len } => {
            let key = vec![b'k'; *len as usize];
            let e = SignedEntry::from_parts(&w.docs[0], &w.authors[0], &key, iroh_docs::Record::new(crate::world::content(1).0, 1, 7));
            let x = iroh_docs::sync::RecordIdentifier::new(w.doc_id(0), w.author_id(0), b"k");
            WireMessage::Sync(MMessage { parts: vec![MPart::RangeItem(MRangeItem { range: MRange { x: x.clone(), y: x }, values: vec![(e, iroh_docs::ContentStatus::Missing)], have_local: false })] }.to_real())
        }
        WMsg::Abort { reason } => WireMessage::Abort {
            reason: match reason % 3 {
                0 => iroh_docs::net::AbortReason::NotFound,
                1 => iroh_docs::net::AbortReason::AlreadySyncing,
                _ => iroh_docs::net::AbortReason::InternalServerError,
            },
        },
    }
}

async fn encode(m: WireMessage) -> Res<Vec<u8>> {
    let mut wr = WireWriter::new(Vec::<u8>::new());
    wr.send(m).await.map_err(|e| harness(format!("encode: {e:#}")))?;
    Ok(wr.into_inner())
}

fn gen_parts(rng: &mut Rng, g: &GenCfg) -> Vec<PartSpec> {
    (0..rng.urange(0, 3))
        .map(|_| {
            if rng.chance(1, 2) {
                PartSpec::Fp { xa: rng.below(3) as u8, xk: gen_key(rng, 3), ya: rng.below(3) as u8, yk: gen_key(rng, 3), fill: rng.below(256) as u8 }
            } else {
                PartSpec::Item { xa: rng.below(3) as u8, xk: gen_key(rng, 3), es: (0..rng.urange(0, 3)).map(|_| gen_ent(rng, g)).collect(), have_local: rng.chance(1, 2), status: rng.below(3) as u8 }
            }
        })
        .collect()
}

impl Scenario for Wire {
    type Plan = WirePlan;
    fn name(&self) -> String {
        "wire".into()
    }

    fn gen(&self, rng: &mut Rng, _tier: Tier) -> WirePlan {
        let g = GenCfg { docs: 1, authors: 3, max_key_len: 3, ts_values: 9, marker_pct: 20, contents: 3 };
        let n = rng.urange(1, 4);
        let msgs: Vec<WMsg> = (0..n)
            .map(|_| match rng.below(6) {
                0 => WMsg::Init { known: rng.chance(1, 2), parts: gen_parts(rng, &g) },
                1 => WMsg::Abort { reason: rng.below(3) as u8 },
                _ => WMsg::Sync { parts: gen_parts(rng, &g) },
            })
            .collect();
        let mut mode = rng.below(10);
        let mut msgs = msgs;
        // rarely: one very large message among the others, on an undamaged stream
        let big = rng.chance(1, 2500);
        if big {
            let len = *rng.pick(&[70_000u32, 70_000, (1 << 20) + 5, (1 << 20) + 5, (4 << 20) + 5, (16 << 20) + 5, (16 << 20) + 5, (24 << 20) + 5]);
            let at = rng.usize_below(msgs.len() + 1);
            msgs.insert(at, WMsg::Big { len });
            mode = 9;
        }
        WirePlan {
            seed: rng.next_u64(),
            msgs,
            chunks: if big { vec![*rng.pick(&[1usize << 16, 1 << 20, 1 << 22])] } else { (0..rng.urange(1, 4)).map(|_| *rng.pick(&[1usize, 1, 2, 3, 4, 5, 7, 13, 64, 1000])).collect() },
            read_chunk: if big { *rng.pick(&[4096usize, 1 << 16]) } else { *rng.pick(&[1usize, 2, 5, 4096]) },
            cut: if mode == 0 || mode == 1 { Some(rng.urange(0, 700)) } else { None },
            corrupt: if mode == 2 || mode == 3 { Some((rng.urange(0, 700), 1 << rng.below(8))) } else { None },
            oversize_at: if mode == 4 { Some(rng.usize_below(n)) } else { None },
            understate_at: if mode == 5 { Some((rng.usize_below(n), rng.below(65536) as u16)) } else { None },
        }
    }

    fn exec(&self, plan: &WirePlan, cx: &mut Cx) -> Res {
        block_on_sim(plan.seed, run_wire(plan, cx))
    }

    fn shrink(&self, plan: &WirePlan) -> Vec<WirePlan> {
        let mut out = Vec::new();
        for c in shrink_vec(&plan.msgs) {
            if !c.is_empty() {
                let mut p = plan.clone();
                p.msgs = c;
                out.push(p);
            }
        }
        if plan.chunks.len() > 1 {
            let mut p = plan.clone();
            p.chunks.truncate(1);
            out.push(p);
        }
        out
    }

    fn components(&self) -> (Vec<&'static str>, Vec<&'static str>) {
        (
            vec!["net::codec::SyncCodec (Encoder via FramedWrite::send, Decoder via FramedRead)", "serde derives of the protocol messages (ranger::Message, MessagePart, SignedEntry)", "postcard"],
            vec!["byte stream (SimPipe: driver-chosen release sizes, read chunk sizes, end of stream after any byte, single-byte corruption, oversized length prefix)"],
        )
    }

    fn rule(&self) -> String {
        "A run frames 1-4 protocol messages (Init/Sync with fingerprint and item parts over the biased alphabet, Abort) with the real codec into one stream and feeds it to the real frame reader in release sizes 1-1000 and read chunks 1-4096; modes: clean (decoded sequence must equal the input; one run in 2500 adds a message of 70 KB - 24 MiB, released and read in large pieces), truncated after 0-700 bytes (prefix then end or error, never an extra message), one byte corrupted (value or error, no panic), oversized length prefix (error). Non-trivial: chunking split a frame, or a truncation/corruption/oversize fault fired.".into()
    }
}

async fn run_wire(plan: &WirePlan, cx: &mut Cx) -> Res {
    let mut frames: Vec<Vec<u8>> = Vec::new();
    for m in &plan.msgs {
        if let WMsg::Big { len } = m {
            cx.fault("very_large_message");
            cx.probe(if *len > 16 << 20 { "message_over_16_MiB" } else if *len > 1 << 20 { "message_over_1_MiB" } else { "message_over_64_KiB" });
        }
        frames.push(encode(to_wire(m)).await?);
    }
    let mut stream: Vec<u8> = Vec::new();
    let mut boundaries = Vec::new();
    let mut understated: Option<usize> = None;
    for (i, f) in frames.iter().enumerate() {
        if plan.oversize_at == Some(i) {
            stream.extend(((iroh_docs::net::codec_verif::MAX_MESSAGE_SIZE as u32) + 1 + i as u32).to_be_bytes());
            stream.extend(&f[4..]);
        } else if let (Some((at, seed)), true) = (plan.understate_at, f.len() > 5) {
            if at == i {
                let real = f.len() - 4;
                let short = (seed as usize) % real; // 0 ..= real-1
                stream.extend((short as u32).to_be_bytes());
                stream.extend(&f[4..]);
                understated = Some(i);
            } else {
                stream.extend(f);
            }
        } else {
            stream.extend(f);
        }
        boundaries.push(stream.len());
    }
    let clean_len = stream.len();
    if let Some((pos, x)) = plan.corrupt {
        if !stream.is_empty() {
            let p = pos % stream.len();
            stream[p] ^= x;
            cx.fault("byte_corrupted");
        }
    }
    if let Some(c) = plan.cut {
        if c < stream.len() {
            stream.truncate(c);
            cx.fault("stream_truncated");
        }
    }
    if plan.oversize_at.is_some() {
        cx.fault("oversized_length_prefix");
    }
    if understated.is_some() {
        cx.fault("understated_length_prefix");
    }
    let (_w, r, ctl) = pipe(plan.read_chunk, false);
    let out: Rc<RefCell<Vec<Result<Vec<u8>, String>>>> = Rc::new(RefCell::new(Vec::new()));
    let done = Rc::new(std::cell::Cell::new(false));
    let (out2, done2) = (out.clone(), done.clone());
    let task = tokio::task::spawn_local(async move {
        let mut rd = WireReader::new(r);
        while let Some(item) = rd.next().await {
            match item {
                Ok(m) => {
                    let mut wr = WireWriter::new(Vec::<u8>::new());
                    let enc = wr.send(m).await.map(|_| wr.into_inner());
                    out2.borrow_mut().push(enc.map_err(|e| format!("re-encode: {e:#}")));
                }
                Err(e) => {
                    out2.borrow_mut().push(Err(format!("{e:#}")));
                    break;
                }
            }
        }
        done2.set(true);
    });
    ctl.inject(&stream);
    ctl.close_writer();
    let mut i = 0;
    let mut split = false;
    let mut released = 0usize;
    while ctl.held() > 0 {
        let n = plan.chunks[i % plan.chunks.len()].max(1);
        i += 1;
        released += ctl.release(n);
        if !boundaries.contains(&released) && released < clean_len {
            split = true;
        }
        barrier().await;
        cx.sim_ms += 1;
        if done.get() {
            break;
        }
    }
    if split {
        cx.probe("frame_split_across_reads");
    }
    ctl.release_eof_if_done();
    for _ in 0..20 {
        if done.get() {
            break;
        }
        barrier().await;
    }
    if !done.get() {
        task.abort();
        return Err(Violation::new("hang/reader", "the frame reader does not finish after end of stream".to_string()));
    }
    let got = out.borrow().clone();
    cx.ev("decoded", format!("{} of {} cut={:?} corrupt={:?} oversize={:?} chunks={:?}/{}", got.len(), frames.len(), plan.cut.filter(|c| *c < clean_len), plan.corrupt.map(|(p, _)| p % clean_len.max(1)), plan.oversize_at, plan.chunks, plan.read_chunk));
    let oks: Vec<&Vec<u8>> = got.iter().filter_map(|r| r.as_ref().ok()).collect();
    let errs = got.iter().filter(|r| r.is_err()).count();
    if plan.corrupt.is_some() {
        // value or error; the panic hook catches the rest
        return Ok(());
    }
    let cut = plan.cut.filter(|c| *c < clean_len);
    if let Some(u) = understated {
        // a strict prefix of a message encoding is never a complete message: the frame delimited
        // by the understated prefix must be reported as an error, the ones before it decode
        if oks.len() > u {
            return Err(Violation::new("bogus-message/understated-prefix", format!("message {u} was framed with a length prefix shorter than its payload (more bytes follow); the reader produced {} messages instead of stopping with an error at it", oks.len())));
        }
        if oks.iter().zip(frames.iter()).any(|(a, b)| *a != b) {
            return Err(Violation::new("roundtrip/changed", "a message before the damaged frame decoded differently".to_string()));
        }
        if errs == 0 {
            return Err(Violation::new("truncated/not-reported", "a frame whose prefix understates its payload ended the stream without an error".to_string()));
        }
        return Ok(());
    }
    if let Some(o) = plan.oversize_at {
        if cut.map(|c| c >= boundaries.get(o.wrapping_sub(1)).copied().unwrap_or(0) + 4).unwrap_or(true) {
            // the oversized prefix was fully delivered: messages before it decode, then an error
            if oks.len() > o || oks.iter().zip(frames.iter()).any(|(a, b)| *a != b) {
                return Err(Violation::new("bogus-message/oversized", format!("{} messages were decoded from a stream whose message {o} has a length prefix beyond the limit", oks.len())));
            }
            if errs == 0 {
                return Err(Violation::new("oversized/not-reported", "an oversized length prefix was not reported as an error".to_string()));
            }
            return Ok(());
        }
    }
    // clean or truncated stream: decoded messages are a prefix of the input
    for (i, o) in oks.iter().enumerate() {
        match frames.get(i) {
            Some(f) if f == *o => {}
            Some(_) => return Err(Violation::new("roundtrip/changed", format!("message {i} decoded to something that re-encodes differently"))),
            None => return Err(Violation::new("bogus-message/extra", format!("{} messages decoded from a stream of {}", oks.len(), frames.len()))),
        }
    }
    match cut {
        None => {
            if oks.len() != frames.len() || errs != 0 {
                return Err(Violation::new("roundtrip/incomplete", format!("{} of {} messages decoded, {errs} errors, on an undamaged stream (release sizes {:?}, read chunk {})", oks.len(), frames.len(), plan.chunks, plan.read_chunk)));
            }
        }
        Some(c) => {
            let complete = boundaries.iter().filter(|b| **b <= c).count();
            if oks.len() > complete {
                return Err(Violation::new("bogus-message/truncated", format!("{} messages decoded but only {complete} complete frames fit into the {c} bytes delivered", oks.len())));
            }
            if oks.len() < complete && plan.oversize_at.is_none() {
                return Err(Violation::new("roundtrip/incomplete", format!("{} messages decoded although {complete} complete frames were delivered before the truncation", oks.len())));
            }
            let at_boundary = c == 0 || boundaries.contains(&c);
            if !at_boundary && errs == 0 && plan.oversize_at.is_none() {
                return Err(Violation::new("truncated/not-reported", format!("a stream cut inside a frame (after {c} bytes) ended without an error")));
            }
        }
    }
    Ok(())
}

// ---------------------------------------------------------------------------------------------
// pure decoders

#[derive(Clone, Copy, PartialEq, Eq, Debug)]
pub enum PureMode {
    /// C09: round trips, hostile bytes, pinned encodings
    Codecs,
    /// C13: author-heads encoding under size limits
    Heads,
    /// C15: filter matching and textual form
    Filters,
}

pub struct Decoders {
    pub mode: PureMode,
}

#[derive(Serialize, Deserialize, Clone, Debug)]
pub enum DCase {
    Entry { e: Ent, mutate: Option<(u16, u8)> },
    Heads {
        heads: Vec<(u16, u64)>,
        limit: Option<u16>,
        /// if set, the limit is the exact encoded size of the `k` newest heads plus `delta`
        #[serde(default)]
        boundary: Option<(u16, i8)>,
    },
    Ticket { d: u8, write: bool, nodes: u8, mutate: Option<(u16, u8)> },
    Cap { kind: u8, #[serde(with = "hexbytes")] bytes: Vec<u8> },
    Filter { f: FilterSpec },
    FilterText { text: String },
    Policy { p: PolicySpec, #[serde(with = "hexbytes")] key: Vec<u8> },
    Random { target: u8, #[serde(with = "hexbytes")] bytes: Vec<u8> },
    Pinned,
}

#[derive(Serialize, Deserialize, Clone, Debug)]
pub struct DecPlan {
    pub cases: Vec<DCase>,
}

fn big_author(i: u16) -> iroh_docs::AuthorId {
    // many distinct authors for head sets: derive ids from secret bytes (cached: key derivation is slow)
    thread_local! {
        static CACHE: std::cell::RefCell<std::collections::HashMap<u16, iroh_docs::AuthorId>> = std::cell::RefCell::new(Default::default());
    }
    CACHE.with(|c| {
        *c.borrow_mut().entry(i).or_insert_with(|| {
            let mut b = [0x5Au8; 32];
            b[0] = (i & 0xff) as u8;
            b[1] = (i >> 8) as u8;
            Author::from_bytes(&b).id()
        })
    })
}

impl Scenario for Decoders {
    type Plan = DecPlan;
    fn name(&self) -> String {
        match self.mode {
            PureMode::Codecs => "decoders-pure",
            PureMode::Heads => "heads-encoding-pure",
            PureMode::Filters => "filters-pure",
        }
        .into()
    }

    fn gen(&self, rng: &mut Rng, _tier: Tier) -> DecPlan {
        let g = GenCfg { docs: 2, authors: 3, max_key_len: 4, ts_values: 9, marker_pct: 20, contents: 3 };
        let n = rng.urange(4, 12);
        let bytes = |rng: &mut Rng, max: usize| -> Vec<u8> { (0..rng.urange(0, max)).map(|_| rng.below(256) as u8).collect() };
        let mut cases = Vec::new();
        for _ in 0..n {
            let c = match self.mode {
                PureMode::Heads => {
                    // mostly small sets; sometimes hundreds of authors (the sequence length prefix
                    // of the encoding grows at 128 items) and limits exactly at item boundaries
                    let big = rng.chance(1, 6);
                    let n = if big { rng.urange(100, 320) } else { rng.urange(0, 40) };
                    let pool = if big { 400 } else { 60 };
                    let heads: Vec<(u16, u64)> = (0..n).map(|_| (rng.below(pool) as u16, *rng.pick(&[1u64, 2, 3, 127, 128, 16384, 1_700_000_000_000_000]) + rng.below(3))).collect();
                    let boundary = if rng.chance(1, 2) { Some((rng.below(n as u64 + 2) as u16, *rng.pick(&[-1i8, 0, 0, 0, 1]))) } else { None };
                    DCase::Heads { heads, limit: if rng.chance(1, 4) { None } else { Some(rng.range(1, if big { 14000 } else { 2000 }) as u16) }, boundary }
                }
                PureMode::Filters => match rng.below(3) {
                    0 => DCase::Filter { f: FilterSpec { exact: rng.chance(1, 2), bytes: if rng.chance(1, 2) { bytes(rng, 6) } else { b"a:b:c"[..rng.urange(0, 5)].to_vec() } } },
                    1 => DCase::FilterText { text: String::from_utf8_lossy(&bytes(rng, 16)).to_string() },
                    _ => DCase::Policy { p: gen_policy(rng), key: gen_key(rng, 4) },
                },
                PureMode::Codecs => match rng.below(12) {
                    0 | 1 => DCase::Entry { e: gen_ent(rng, &g), mutate: if rng.chance(2, 3) { Some((rng.below(400) as u16, 1 << rng.below(8))) } else { None } },
                    2 => DCase::Heads { heads: (0..rng.urange(0, 10)).map(|_| (rng.below(20) as u16, rng.below(1000))).collect(), limit: None, boundary: None },
                    3 | 4 => DCase::Ticket { d: rng.below(4) as u8, write: rng.chance(1, 2), nodes: rng.range(1, 3) as u8, mutate: if rng.chance(1, 2) { Some((rng.below(300) as u16, 1 << rng.below(8))) } else { None } },
                    5 => DCase::Cap { kind: rng.below(5) as u8, bytes: (0..32).map(|_| rng.below(256) as u8).collect() },
                    6 => DCase::Filter { f: FilterSpec { exact: rng.chance(1, 2), bytes: bytes(rng, 6) } },
                    7 => DCase::FilterText { text: String::from_utf8_lossy(&bytes(rng, 16)).to_string() },
                    8 => DCase::Policy { p: gen_policy(rng), key: gen_key(rng, 4) },
                    9 | 10 => DCase::Random { target: rng.below(6) as u8, bytes: bytes(rng, 200) },
                    _ => DCase::Pinned,
                },
            };
            cases.push(c);
        }
        DecPlan { cases }
    }

    fn exec(&self, plan: &DecPlan, cx: &mut Cx) -> Res {
        for c in &plan.cases {
            self.case(c, cx)?;
        }
        cx.evals = plan.cases.len() as u64;
        Ok(())
    }

    fn shrink(&self, plan: &DecPlan) -> Vec<DecPlan> {
        shrink_vec(&plan.cases).into_iter().filter(|c| !c.is_empty()).map(|cases| DecPlan { cases }).collect()
    }

    fn components(&self) -> (Vec<&'static str>, Vec<&'static str>) {
        (vec!["serde/postcard codecs of SignedEntry, AuthorHeads::encode/decode, DocTicket, Capability::raw/from_raw, FilterKind Display/FromStr, DownloadPolicy::matches"], vec!["nothing is simulated here: pure functions of their input (seeded generation and mutation only)"])
    }

    fn rule(&self) -> String {
        "PURE PART (no schedule, clock or fault): seeded generation of values and of mutated / random byte strings; every decoder must return a value or an error, round trips must be exact, pinned encodings are recomputed. Counted separately from simulated runs. Non-trivial: a mutated or random input was used.".into()
    }
}

impl Decoders {
    fn case(&self, c: &DCase, cx: &mut Cx) -> Res {
        let w = world();
        match c {
            DCase::Entry { e, mutate } => {
                let s = e.signed();
                let mut b = postcard::to_stdvec(&s).map_err(|e| harness(e.to_string()))?;
                let back: SignedEntry = postcard::from_bytes(&b).map_err(|e| Violation::new("roundtrip/signed-entry", format!("{e}")))?;
                if back != s {
                    return Err(Violation::new("roundtrip/signed-entry", "decode(encode(e)) != e".to_string()));
                }
                if let Some((pos, x)) = mutate {
                    let p = *pos as usize % b.len();
                    b[p] ^= x;
                    cx.fault("mutated_bytes");
                    if let Ok(m) = postcard::from_bytes::<SignedEntry>(&b) {
                        // use every accessor: none may panic
                        let _ = (m.entry().namespace(), m.author(), m.key().len(), m.timestamp(), m.content_len(), m.content_hash(), m.validate_empty().is_ok());
                        let _ = m.verify(&iroh_docs::store::MemPublicKeyStore::default());
                    }
                }
            }
            DCase::Heads { heads, limit, boundary } => {
                let mut h = AuthorHeads::default();
                let mut want: std::collections::BTreeMap<[u8; 32], u64> = Default::default();
                for (a, ts) in heads {
                    let id = big_author(*a);
                    h.insert(id, *ts);
                    let t = want.entry(id.to_bytes()).or_insert(0);
                    *t = (*t).max(*ts);
                }
                // resolve a boundary limit: exact encoded size of the k newest heads (+ delta)
                let limit: Option<usize> = match (boundary, limit) {
                    (Some((k, delta)), Some(_)) => {
                        let mut items: Vec<(u64, [u8; 32])> = want.iter().map(|(a, t)| (*t, *a)).collect();
                        items.sort();
                        items.reverse();
                        items.truncate(*k as usize);
                        let size = postcard::to_stdvec(&items).map(|v| v.len()).unwrap_or(1) as i64 + *delta as i64;
                        cx.probe("limit_at_item_boundary");
                        if items.len() >= 128 {
                            cx.probe("two_byte_length_prefix");
                        }
                        Some(size.max(1) as usize)
                    }
                    (_, l) => l.map(|l| l as usize),
                };
                let limit = &limit;
                let enc = h.encode(*limit).map_err(|e| Violation::new("encode/error", format!("{e:#}")))?;
                let dec = AuthorHeads::decode(&enc).map_err(|e| Violation::new("encode/undecodable", format!("{e:#}")))?;
                let got: std::collections::BTreeMap<[u8; 32], u64> = dec.iter().map(|(a, t)| (a.to_bytes(), *t)).collect();
                if self.mode == PureMode::Codecs {
                    return Ok(());
                }
                match limit {
                    None => {
                        if got != want {
                            return Err(Violation::new("encode/lost", format!("without a size limit {} of {} authors survive encode+decode (authors sharing a timestamp: {})", got.len(), want.len(), want.len() - want.values().collect::<std::collections::BTreeSet<_>>().len())));
                        }
                    }
                    Some(l) => {
                        cx.fault("size_limit");
                        let l = *l;
                        if enc.len() > l {
                            return Err(Violation::new("encode/limit", format!("encoded {} bytes under a limit of {l}", enc.len())));
                        }
                        for (a, t) in &got {
                            if want.get(a) != Some(t) {
                                return Err(Violation::new("encode/changed", "a decoded head differs from the original".to_string()));
                            }
                        }
                        // newest first: every kept head is at least as new as every dropped one
                        let min_kept = got.values().min().copied();
                        let dropped: Vec<u64> = want.iter().filter(|(a, _)| !got.contains_key(*a)).map(|(_, t)| *t).collect();
                        if let (Some(mk), Some(md)) = (min_kept, dropped.iter().max()) {
                            if *md > mk {
                                return Err(Violation::new("encode/order", format!("a head with timestamp {md} was dropped while one with {mk} was kept")));
                            }
                        }
                        // maximal: the next newest one would not have fitted
                        if let Some(md) = dropped.iter().max() {
                            let mut items: Vec<(u64, [u8; 32])> = got.iter().map(|(a, t)| (*t, *a)).collect();
                            items.push((*md, [0u8; 32]));
                            let size = postcard::to_stdvec(&items).map(|v| v.len()).unwrap_or(usize::MAX);
                            if size <= l {
                                return Err(Violation::new("encode/lost", format!("{} of {} heads kept under limit {l} although one more (ts {md}) fits: {size} bytes", got.len(), want.len())));
                            }
                        }
                    }
                }
            }
            DCase::Ticket { d, write, nodes, mutate } => {
                let cap = if *write { Capability::Write(w.docs[*d as usize].clone()) } else { Capability::Read(w.doc_id(*d)) };
                let addrs: Vec<iroh::EndpointAddr> = (0..*nodes).map(|i| iroh::EndpointAddr::new(iroh::PublicKey::from_bytes(&w.peers[i as usize]).unwrap())).collect();
                let t = DocTicket::new(cap, addrs);
                let text = t.to_string();
                let back: DocTicket = text.parse().map_err(|e| Violation::new("roundtrip/ticket", format!("a ticket with {nodes} nodes does not parse back: {e}")))?;
                if postcard::to_stdvec(&back).ok() != postcard::to_stdvec(&t).ok() {
                    return Err(Violation::new("roundtrip/ticket", "parse(display(ticket)) != ticket".to_string()));
                }
                if let Some((pos, x)) = mutate {
                    let mut b = text.into_bytes();
                    let p = *pos as usize % b.len();
                    b[p] ^= x & 0x1f;
                    cx.fault("mutated_bytes");
                    if let Ok(s) = String::from_utf8(b) {
                        let _ = s.parse::<DocTicket>();
                    }
                }
            }
            DCase::Cap { kind, bytes } => {
                let mut b = [0u8; 32];
                b.copy_from_slice(&bytes[..32]);
                cx.fault("random_bytes");
                match Capability::from_raw(*kind, &b) {
                    Ok(c) => {
                        let (k2, b2) = c.raw();
                        if k2 != *kind || (matches!(c, Capability::Read(_)) && b2 != b) {
                            return Err(Violation::new("roundtrip/capability", format!("raw(from_raw({kind}, ..)) gives kind {k2}")));
                        }
                        if !(1..=2).contains(kind) {
                            return Err(Violation::new("roundtrip/capability", format!("unknown capability kind {kind} was accepted")));
                        }
                    }
                    Err(_) => {
                        if (1..=2).contains(kind) {
                            return Err(Violation::new("roundtrip/capability", format!("valid capability kind {kind} was refused")));
                        }
                    }
                }
            }
            DCase::Filter { f } => {
                let real = if f.exact { FilterKind::Exact(f.bytes.clone().into()) } else { FilterKind::Prefix(f.bytes.clone().into()) };
                let text = real.to_string();
                let back: Result<FilterKind, _> = text.parse();
                match back {
                    Ok(b) if b == real => {}
                    other => return Err(Violation::new("text/filter", format!("filter {f:?} printed as {text:?} parses back as {other:?}"))),
                }
            }
            DCase::FilterText { text } => {
                cx.fault("random_bytes");
                if let Ok(f) = text.parse::<FilterKind>() {
                    let again = f.to_string().parse::<FilterKind>();
                    if again.as_ref().ok() != Some(&f) {
                        return Err(Violation::new("text/filter", format!("{text:?} parses to {f:?}, which prints and parses to {again:?}")));
                    }
                }
            }
            DCase::Policy { p, key } => {
                let real = p.real();
                let b = postcard::to_stdvec(&real).map_err(|e| harness(e.to_string()))?;
                let back: DownloadPolicy = postcard::from_bytes(&b).map_err(|e| Violation::new("roundtrip/policy", format!("{e}")))?;
                if back != real {
                    return Err(Violation::new("roundtrip/policy", "decode(encode(policy)) != policy".to_string()));
                }
                if self.mode != PureMode::Codecs {
                    let e = Ent { d: 0, a: 0, k: key.clone(), ts: 1, c: 1 }.signed();
                    let got = real.matches(e.entry());
                    if got != p.selects(key) {
                        return Err(Violation::new("match/policy", format!("policy {p:?} says download={got} for key {}, the definition says {}", hex::encode(key), p.selects(key))));
                    }
                    for f in &p.filters {
                        let real = if f.exact { FilterKind::Exact(f.bytes.clone().into()) } else { FilterKind::Prefix(f.bytes.clone().into()) };
                        let want = if f.exact { &f.bytes == key } else { key.starts_with(&f.bytes) };
                        if real.matches(key) != want {
                            return Err(Violation::new("match/filter", format!("filter {f:?} on key {} gives {}", hex::encode(key), !want)));
                        }
                    }
                }
            }
            DCase::Random { target, bytes } => {
                cx.fault("random_bytes");
                match target {
                    0 => {
                        if let Ok(m) = postcard::from_bytes::<SignedEntry>(bytes) {
                            let _ = (m.entry().namespace(), m.author(), m.key().len());
                        }
                    }
                    1 => {
                        let _ = AuthorHeads::decode(bytes);
                    }
                    2 => {
                        let _ = String::from_utf8_lossy(bytes).parse::<DocTicket>();
                    }
                    3 => {
                        let _ = postcard::from_bytes::<DownloadPolicy>(bytes);
                    }
                    4 => {
                        if let Ok(m) = postcard::from_bytes::<iroh_docs::sync::ProtocolMessage>(bytes) {
                            let _ = postcard::to_stdvec(&m);
                        }
                    }
                    _ => {
                        let _ = postcard::from_bytes::<Capability>(bytes);
                    }
                }
            }
            DCase::Pinned => {
                let author = Author::from_bytes(&[0xa1; 32]);
                let namespace = NamespaceSecret::from_bytes(&[0xb2; 32]);
                let a = hex::encode(postcard::to_stdvec(&author).unwrap());
                if a != "20a1a1a1a1a1a1a1a1a1a1a1a1a1a1a1a1a1a1a1a1a1a1a1a1a1a1a1a1a1a1a1a1" {
                    return Err(Violation::new("pinned/author", a));
                }
                let n = hex::encode(postcard::to_stdvec(&namespace).unwrap());
                if n != "20b2b2b2b2b2b2b2b2b2b2b2b2b2b2b2b2b2b2b2b2b2b2b2b2b2b2b2b2b2b2b2b2" {
                    return Err(Violation::new("pinned/namespace", n));
                }
                let record = iroh_docs::Record::new(iroh_blobs::Hash::EMPTY, 0, 1_700_000_000_000_000u64);
                let signed = SignedEntry::from_parts(&namespace, &author, b"wire-format-test", record);
                let s = hex::encode(postcard::to_stdvec(&signed).unwrap());
                if s != "4b523f1b6d9b00a4779fc9f8f105a9e36f062ceb7d511b632905782042ad30acb6dd07bfced4ecd5f3aa58321e8ace63f48f988ed8461bfdcd8b0e902187a10e228ddc6998329b7faa64875fe80da36406ea8d87e3e57bb048323e9cb66c0b343b60c4e709fb978b878e37d0c362edfc06c8cdc774c8b29d94e48eaa06cca60f5055154f42065ea5a1bea05463826be2684eb92df92c100027aabaae57ca554207bc7cbcb5636375fa1d82434d466724d92377f53b980695dd49d26d0ce12205a5776972652d666f726d61742d7465737400af1349b9f5f9a1a6a0404dea36dcc9499bcb25c9adc112b7cc9a93cae41f32628080f9c0c1c48203" {
                    return Err(Violation::new("pinned/signed-entry", s));
                }
            }
        }
        Ok(())
    }
}
