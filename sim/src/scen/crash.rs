//! Scenario `crash` (C06, fault enumeration): for each sampled history on a persistent store the
//! simulator enumerates every crash point (after every backend write / set_len / sync) under
//! loss models L1 and L2, for every single placement of the age-based auto-commit at each
//! internal store call of each operation (plus no placement), and checks that the reopened
//! store shows a state the live store passed through between two complete operations, not older
//! than the last flush, with lookups, both query paths and heads agreeing with each other.

use std::collections::{BTreeMap, HashMap};

use iroh_docs::{
    store::{DownloadPolicy, Query, SortBy, SortDirection, Store},
    Capability, CapabilityKind, ContentStatus, SyncOutcome,
};
use serde::{Deserialize, Serialize};

use crate::{
    disk::{FailKind, Loss, SimDisk},
    model::RefDoc,
    msg::MMessage,
    ops::{arm_age, disarm_age, offer, Path, PEER},
    rng::{fnv, Rng},
    runner::{block_on_sim, shrink_vec, Cx, Res, Scenario, Tier, Violation},
    scen::docs::{gen_policy, PolicySpec},
    sut::harness,
    world::{gen_ent, world, Ent, GenCfg},
};

/// `long`: histories of 60-200 operations that rarely commit, so that many modifications pile
/// up in one write transaction (anything that rolls the transaction over by size or count rather
/// than by age shows up here); crash points and loss models are still enumerated completely,
/// age-commit placements are sampled.
pub struct Crash {
    pub long: bool,
}

#[derive(Serialize, Deserialize, Clone, Debug)]
pub enum COp {
    ImportCap { d: u8, write: bool },
    Offer { e: Ent, path: Path },
    /// one reconciliation message carrying several entries (each entry is one atomic unit)
    Message { es: Vec<Ent> },
    SetPolicy { d: u8, p: PolicySpec },
    Register { d: u8, peer: u8 },
    Remove { d: u8 },
    Flush,
    /// a read through get_many (commits the open transaction as a side effect)
    Read { d: u8 },
    /// list the documents or the author keys of the store (another read path, which by its
    /// documentation commits the open transaction as well)
    List { authors: bool },
    /// the other read paths: 0 point lookup, 1 heads, 2 peers, 3 policy, 4 author key (none of
    /// them promises to commit), 5 content hashes (commits, like a query)
    Peek { d: u8, kind: u8 },
}

#[derive(Serialize, Deserialize, Clone, Debug)]
pub struct CrashPlan {
    pub seed: u64,
    pub ops: Vec<COp>,
    /// thorough: additionally sample L3 (subset of unsynced writes, optionally torn) images
    pub l3_samples: u32,
    /// thorough: inject an I/O error at this mutating disk call (index, kind) in one extra run
    pub io_error: Option<(u64, u8)>,
    /// sampled double placements (op, call), (op, call)
    pub double: Vec<((usize, u32), (usize, u32))>,
    /// long histories: single placements are sampled (these) instead of enumerated
    #[serde(default)]
    pub long: bool,
    #[serde(default)]
    pub single: Vec<(usize, u32)>,
    /// additionally enumerate the crash points of the very first open of a new database
    #[serde(default)]
    pub creation: bool,
}

#[derive(Clone, Default, Debug, PartialEq, Eq)]
struct DocState {
    cap: Option<bool>,
    doc: RefDoc,
    policy: Option<PolicySpec>,
    peers: Vec<u8>,
}

type Model = Vec<DocState>;

/// What can be observed of a document through the public API.
#[derive(Clone, Debug, PartialEq, Eq, Hash)]
struct DocObs {
    entries: Vec<Vec<u8>>,
    peers: Option<Vec<[u8; 32]>>,
    policy: Vec<u8>,
    cap: Option<u8>,
}

#[derive(Clone, Debug)]
struct Obs {
    docs: Vec<DocObs>,
    /// internal consistency problem found while observing (oracle `inconsistent/..`)
    inconsistent: Option<(String, String)>,
}

fn expected(m: &Model) -> Vec<DocObs> {
    let w = world();
    m.iter()
        .map(|d| DocObs {
            entries: d.doc.0.values().map(|e| postcard::to_stdvec(&e.signed()).unwrap()).collect(),
            peers: if d.peers.is_empty() { None } else { Some(d.peers.iter().map(|p| w.peers[*p as usize]).collect()) },
            policy: postcard::to_stdvec(&d.policy.clone().map(|p| p.real()).unwrap_or_default()).unwrap(),
            cap: d.cap.map(|w| if w { 1 } else { 2 }),
        })
        .collect()
}

fn observe(store: &mut Store) -> Result<Obs, String> {
    let w = world();
    let mut docs = Vec::new();
    let mut inconsistent = None;
    let mut caps: BTreeMap<[u8; 32], u8> = BTreeMap::new();
    for r in store.list_namespaces().map_err(|e| format!("{e:#}"))? {
        let (id, kind) = r.map_err(|e| format!("{e:#}"))?;
        caps.insert(id.to_bytes(), match kind { CapabilityKind::Write => 1, CapabilityKind::Read => 2 });
    }
    for d in 0..crate::world::N_DOCS as u8 {
        let ns = w.doc_id(d);
        let raw: Vec<iroh_docs::SignedEntry> = store
            .get_many(ns, Query::all().include_empty())
            .map_err(|e| format!("{e:#}"))?
            .collect::<Result<_, _>>()
            .map_err(|e| format!("{e:#}"))?;
        let by_key: Vec<iroh_docs::SignedEntry> = store
            .get_many(ns, Query::all().include_empty().sort_by(SortBy::KeyAuthor, SortDirection::Asc))
            .map_err(|e| format!("{e:#}"))?
            .collect::<Result<_, _>>()
            .map_err(|e| format!("{e:#}"))?;
        let mut a: Vec<Vec<u8>> = raw.iter().map(|e| e.id().as_ref().to_vec()).collect();
        let mut b: Vec<Vec<u8>> = by_key.iter().map(|e| e.id().as_ref().to_vec()).collect();
        a.sort();
        b.sort();
        if a != b && inconsistent.is_none() {
            inconsistent = Some(("index".to_string(), format!("d{d}: author-ordered query returns {} entries, key-ordered {}", a.len(), b.len())));
        }
        // heads agree with entries
        let mut want: BTreeMap<[u8; 32], u64> = BTreeMap::new();
        for e in &raw {
            let t = want.entry(e.author().to_bytes()).or_insert(0);
            *t = (*t).max(e.timestamp());
        }
        let mut got: BTreeMap<[u8; 32], u64> = BTreeMap::new();
        for r in store.get_latest_for_each_author(ns).map_err(|e| format!("{e:#}"))? {
            let (a, ts, _k) = r.map_err(|e| format!("{e:#}"))?;
            got.insert(a.to_bytes(), ts);
        }
        if got != want && inconsistent.is_none() {
            inconsistent = Some(("heads".to_string(), format!("d{d}: heads {:?} but entries give {:?}", got.values().collect::<Vec<_>>(), want.values().collect::<Vec<_>>())));
        }
        // point lookups agree
        for e in &raw {
            let x = store.get_exact(ns, e.author(), e.key(), true).map_err(|e| format!("{e:#}"))?;
            if x.as_ref() != Some(e) && inconsistent.is_none() {
                inconsistent = Some(("exact".to_string(), format!("d{d}: get_exact disagrees with the query for key {}", hex::encode(e.key()))));
            }
        }
        let peers = store.get_sync_peers(&ns).map_err(|e| format!("{e:#}"))?.map(|i| i.collect::<Vec<_>>());
        let policy = postcard::to_stdvec(&store.get_download_policy(&ns).map_err(|e| format!("{e:#}"))?).unwrap();
        docs.push(DocObs {
            entries: raw.iter().map(|e| postcard::to_stdvec(e).unwrap()).collect(),
            peers,
            policy,
            cap: caps.get(&ns.to_bytes()).copied(),
        });
    }
    Ok(Obs { docs, inconsistent })
}

impl Scenario for Crash {
    type Plan = CrashPlan;
    fn name(&self) -> String {
        if self.long { "crash-long".into() } else { "crash".into() }
    }

    fn gen(&self, rng: &mut Rng, tier: Tier) -> CrashPlan {
        if self.long {
            return gen_long(rng, tier);
        }
        let ndocs = rng.range(1, 2) as u8;
        let g = GenCfg { docs: ndocs, authors: rng.range(1, 2) as u8, max_key_len: 3, ts_values: 6, marker_pct: 30, contents: 3 };
        let n = rng.urange(3, tier.pick(6, 10));
        let mut ops = Vec::new();
        for d in 0..ndocs {
            // a quarter of the documents start read-only (a later import of the write capability
            // is then an upgrade of a durable row, not an insertion)
            ops.push(COp::ImportCap { d, write: rng.chance(3, 4) });
        }
        // a flushed base so that pruning has something durable to destroy
        for _ in 0..rng.urange(0, 3) {
            ops.push(COp::Offer { e: gen_ent(rng, &g), path: Path::Remote });
        }
        if rng.chance(2, 3) {
            ops.push(COp::Flush);
        }
        for _ in 0..n {
            let d = rng.below(ndocs as u64) as u8;
            let op = match rng.below(20) {
                0..=8 => COp::Offer { e: gen_ent(rng, &g), path: match rng.below(4) { 0 => Path::Local, _ => Path::Remote } },
                9..=10 => COp::Message { es: (0..rng.urange(1, 3)).map(|_| { let mut e = gen_ent(rng, &g); e.d = d; e }).collect() },
                11 => COp::SetPolicy { d, p: gen_policy(rng) },
                12 | 13 => COp::Register { d, peer: rng.below(7) as u8 },
                14 => COp::ImportCap { d, write: rng.chance(1, 2) },
                15 => COp::Remove { d },
                16 | 17 => COp::Flush,
                18 => COp::List { authors: rng.chance(1, 2) },
                19 if rng.chance(1, 2) => COp::Peek { d, kind: rng.below(6) as u8 },
                _ => COp::Read { d },
            };
            ops.push(op);
        }
        let thorough = tier == Tier::Thorough;
        let nops = ops.len();
        CrashPlan {
            seed: rng.next_u64(),
            ops,
            // (quick: a third of the histories sample a few L3 / torn images, a quarter inject one I/O error)
            l3_samples: if thorough { 24 } else if rng.chance(1, 3) { 6 } else { 0 },
            io_error: if rng.chance(1, if thorough { 2 } else { 4 }) { Some((rng.below(if thorough { 120 } else { 30 }), rng.below(3) as u8)) } else { None },
            double: (0..if thorough { 6 } else { 2 }).map(|_| ((rng.usize_below(nops), rng.below(5) as u32), (rng.usize_below(nops), rng.below(5) as u32))).collect(),
            long: false,
            single: vec![],
            creation: rng.chance(1, 40),
        }
    }

    fn exec(&self, plan: &CrashPlan, cx: &mut Cx) -> Res {
        block_on_sim(plan.seed, run(plan, cx))
    }

    fn shrink(&self, plan: &CrashPlan) -> Vec<CrashPlan> {
        let mut out = Vec::new();
        for c in shrink_vec(&plan.ops) {
            let mut p = plan.clone();
            p.ops = c;
            out.push(p);
        }
        if !plan.double.is_empty() || !plan.single.is_empty() {
            let mut p = plan.clone();
            p.double.clear();
            p.single.clear();
            out.push(p);
        }
        if plan.l3_samples > 0 || plan.io_error.is_some() {
            let mut p = plan.clone();
            p.l3_samples = 0;
            p.io_error = None;
            out.push(p);
        }
        if plan.creation && !plan.ops.is_empty() {
            // the first open alone
            let mut p = plan.clone();
            p.ops.clear();
            p.double.clear();
            out.push(p);
        }
        for (i, op) in plan.ops.iter().enumerate() {
            match op {
                COp::Offer { e, path } => {
                    if !e.k.is_empty() {
                        let mut p = plan.clone();
                        let mut e2 = e.clone();
                        e2.k.pop();
                        p.ops[i] = COp::Offer { e: e2, path: *path };
                        out.push(p);
                    }
                    if *path != Path::Remote {
                        let mut p = plan.clone();
                        p.ops[i] = COp::Offer { e: e.clone(), path: Path::Remote };
                        out.push(p);
                    }
                }
                COp::Message { es } if es.len() > 1 => {
                    for c in shrink_vec(es) {
                        if !c.is_empty() {
                            let mut p = plan.clone();
                            p.ops[i] = COp::Message { es: c };
                            out.push(p);
                        }
                    }
                }
                _ => {}
            }
        }
        out
    }

    fn components(&self) -> (Vec<&'static str>, Vec<&'static str>) {
        (
            vec!["store::fs::Store (lazily shared write transaction, flush, snapshot, age-based commit)", "ranger::Store::put over store::fs (prune + write as separate store calls)", "sync::Replica ingress paths", "redb (commit protocol and crash recovery)"],
            vec!["disk: SimDisk records every write/set_len/sync; crash images L1 (all writes), L2 (synced only), L3 (subset of unsynced writes, torn last write), EIO/ENOSPC", "age of the open transaction (hook: look older than MAX_COMMIT_DELAY at a chosen internal store call)", "wall clock"],
        )
    }

    fn rule(&self) -> String {
        if self.long {
            return "Histories of 60-220 operations, mostly writes at few keys with mostly increasing timestamps (overwrites and prefix deletions keep pruning), single-step modifications in between, and no or hardly any committing operation, so that up to several hundred modifications pile up in one write transaction; per history every crash point x loss model (L1, L2) is judged, with no age commit and with 0-2 sampled single placements. evaluations = crash scenarios judged; distinct = distinct reopened images.".into();
        }
        "Histories of 3-12 operations (remote/local inserts and deletions, multi-entry messages, policies, peers, capability imports, document removal, flush, reads) are sampled; per history the crash-point x loss-model (L1, L2) x single-age-commit-placement space is enumerated completely (a third of the histories also sample L3 / torn images and a quarter inject one I/O error - EIO on write, EIO on sync, ENOSPC - after which the operation may fail but no image may show content outside the passed states; thorough does both for every history and samples more double placements). One history in forty also enumerates the crash points of the very first open of a new database (every image plain redb accepts must open as the empty store). evaluations = crash scenarios judged (placement, crash point, loss); distinct = distinct reopened images (by rolling hash of the write log prefix).".into()
    }
}

/// Long histories: mostly writes at few keys (so that overwrites and prefix deletions keep pruning),
/// single-step modifications in between (they shift the parity of the modification count), and
/// hardly any operation that commits.
fn gen_long(rng: &mut Rng, tier: Tier) -> CrashPlan {
    let ndocs = rng.range(1, 2) as u8;
    let g = GenCfg { docs: ndocs, authors: rng.range(1, 2) as u8, max_key_len: rng.urange(2, 3), ts_values: rng.range(6, 40), marker_pct: *rng.pick(&[10, 30]), contents: 3 };
    let n = rng.urange(60, tier.pick(140, 220));
    let mut ops = Vec::new();
    for d in 0..ndocs {
        ops.push(COp::ImportCap { d, write: rng.chance(3, 4) });
    }
    for _ in 0..rng.urange(0, 4) {
        ops.push(COp::Offer { e: gen_ent(rng, &g), path: Path::Remote });
    }
    ops.push(COp::Flush);
    // how rarely a committing operation appears: never, or about once in 50 / 120 operations
    let commit_every = *rng.pick(&[0u64, 0, 50, 120]);
    let mut ts = 1u64;
    for _ in 0..n {
        let d = rng.below(ndocs as u64) as u8;
        let op = if commit_every > 0 && rng.chance(1, commit_every) {
            match rng.below(3) { 0 => COp::Flush, 1 => COp::Read { d }, _ => COp::List { authors: rng.chance(1, 2) } }
        } else {
            match rng.below(20) {
                0..=13 => {
                    let mut e = gen_ent(rng, &g);
                    // mostly increasing timestamps: later writes replace and prune earlier ones
                    if rng.chance(3, 4) {
                        ts += rng.below(2);
                        e.ts = ts;
                    }
                    COp::Offer { e, path: match rng.below(4) { 0 => Path::Local, _ => Path::Remote } }
                }
                14 => COp::Message { es: (0..rng.urange(1, 3)).map(|_| { let mut e = gen_ent(rng, &g); e.d = d; e }).collect() },
                15 => COp::SetPolicy { d, p: gen_policy(rng) },
                16 | 17 => COp::Register { d, peer: rng.below(7) as u8 },
                18 => COp::ImportCap { d, write: rng.chance(1, 2) },
                _ => COp::Peek { d, kind: rng.below(5) as u8 },
            }
        };
        ops.push(op);
    }
    let nops = ops.len();
    CrashPlan {
        seed: rng.next_u64(),
        ops,
        l3_samples: 0,
        io_error: None,
        double: vec![],
        creation: false,
        long: true,
        single: (0..rng.urange(0, 2)).map(|_| (rng.usize_below(nops), rng.below(4) as u32)).collect(),
    }
}

struct Exec {
    disk: SimDisk,
    /// model state after each atomic unit, with the log position at which the unit was complete
    states: Vec<Model>,
    /// for each op: index into `states` of the state after it, and log length at its end
    op_end: Vec<(usize, usize)>,
    /// for each op: state index that is guaranteed durable once the op has completed
    flushed_after: Vec<Option<usize>>,
    /// internal store calls (with an open write transaction) seen per op
    calls: Vec<u32>,
    fired: bool,
    io_failed: bool,
}

/// Execute the history on a fresh recording SimDisk. `place`: age the transaction at the j-th
/// internal store call of op k (several placements allowed).
async fn execute(plan: &CrashPlan, place: &[(usize, u32)], io_error: Option<(u64, FailKind)>) -> Res<Exec> {
    let w = world();
    let disk = SimDisk::new();
    let mut store = Store::verif_with_backend(disk.clone()).map_err(|e| harness(format!("create: {e:#}")))?;
    store.flush().map_err(|e| harness(format!("{e:#}")))?;
    disk.start_recording();
    if let Some((at, kind)) = io_error {
        disk.fail_after(at, kind);
    }
    let mut m: Model = vec![DocState::default(); crate::world::N_DOCS];
    let mut states = vec![m.clone()];
    let mut op_end = Vec::new();
    let mut flushed_after = Vec::new();
    let mut calls = Vec::new();
    let mut clock = 1_000_000u64;
    let mut fired_any = false;
    let mut io_failed = false;
    for (k, op) in plan.ops.iter().enumerate() {
        let at: Vec<u32> = place.iter().filter(|(pk, _)| *pk == k).map(|(_, j)| *j).collect();
        // count calls; fire at the chosen ones
        let counter = std::rc::Rc::new(std::cell::Cell::new(0u32));
        let fired = std::rc::Rc::new(std::cell::Cell::new(false));
        {
            let (c2, f2, at2) = (counter.clone(), fired.clone(), at.clone());
            iroh_docs::verif::set_txn_age_cb(Some(Box::new(move || {
                let n = c2.get();
                c2.set(n + 1);
                if at2.contains(&n) {
                    f2.set(true);
                    true
                } else {
                    false
                }
            })));
        }
        let mut flushed = None;
        let mut failed = false;
        match op {
            COp::ImportCap { d, write } => {
                let cap = if *write { Capability::Write(w.docs[*d as usize].clone()) } else { Capability::Read(w.doc_id(*d)) };
                match store.import_namespace(cap) {
                    Ok(_) => {
                        let dm = &mut m[*d as usize];
                        dm.cap = Some(dm.cap.unwrap_or(false) || *write);
                    }
                    Err(_) => failed = true,
                }
                states.push(m.clone());
            }
            COp::Offer { e, path } => {
                let exists = m[e.d as usize].cap;
                let r = offer(&mut store, e, *path).await?;
                if let crate::ops::OfferResult::Error(_) = r {
                    if exists == Some(true) || (exists == Some(false) && *path != Path::Local) {
                        failed = true;
                    }
                } else if exists.is_some() {
                    m[e.d as usize].doc.offer(e);
                }
                states.push(m.clone());
            }
            COp::Message { es } => {
                let d = es[0].d;
                if m[d as usize].cap.is_some() {
                    let ns = w.doc_id(d);
                    iroh_docs::verif::set_wall_clock_micros(Some(1_000_000));
                    let msg = MMessage::carrying(es.iter().map(|e| e.signed()).collect()).to_real();
                    let mut r = store.open_replica(&ns).map_err(|e| harness(format!("open: {e}")))?;
                    let mut out = SyncOutcome::default();
                    let res = r.sync_process_message(msg, PEER, &mut out).await;
                    drop(r);
                    store.close_replica(ns);
                    iroh_docs::verif::set_wall_clock_micros(None);
                    if res.is_err() {
                        failed = true;
                    }
                    // every entry is one atomic unit: the store passes through each intermediate state
                    for e in es {
                        m[d as usize].doc.offer(e);
                        states.push(m.clone());
                    }
                } else {
                    states.push(m.clone());
                }
                let _ = ContentStatus::Missing;
            }
            COp::SetPolicy { d, p } => {
                match store.set_download_policy(&w.doc_id(*d), p.real()) {
                    Ok(()) => m[*d as usize].policy = Some(p.clone()),
                    Err(_) => {
                        if m[*d as usize].cap.is_some() {
                            failed = true;
                        }
                    }
                }
                states.push(m.clone());
            }
            COp::Register { d, peer } => {
                clock += 10;
                iroh_docs::verif::set_wall_clock_micros(Some(clock));
                let r = store.register_useful_peer(w.doc_id(*d), w.peers[*peer as usize]);
                iroh_docs::verif::set_wall_clock_micros(None);
                match r {
                    Ok(()) => {
                        let dm = &mut m[*d as usize];
                        dm.peers.retain(|p| p != peer);
                        dm.peers.insert(0, *peer);
                        dm.peers.truncate(5);
                    }
                    Err(_) => {
                        if m[*d as usize].cap.is_some() {
                            failed = true;
                        }
                    }
                }
                states.push(m.clone());
            }
            COp::Remove { d } => {
                match store.remove_replica(&w.doc_id(*d)) {
                    Ok(()) => m[*d as usize] = DocState::default(),
                    Err(_) => failed = true,
                }
                states.push(m.clone());
            }
            COp::Flush => {
                match store.flush() {
                    Ok(()) => flushed = Some(states.len() - 1),
                    Err(_) => failed = true,
                }
                states.push(m.clone());
            }
            COp::Read { d } => {
                match store.get_many(w.doc_id(*d), Query::all().include_empty()) {
                    Ok(it) => {
                        let _ = it.count();
                        flushed = Some(states.len() - 1);
                    }
                    Err(_) => failed = true,
                }
                states.push(m.clone());
            }
            COp::Peek { d, kind } => {
                let ns = w.doc_id(*d);
                let ok = match kind % 6 {
                    0 => store.get_exact(ns, w.author_id(0), b"a", true).is_ok(),
                    1 => store.get_latest_for_each_author(ns).map(|it| it.count()).is_ok(),
                    2 => store.get_sync_peers(&ns).map(|it| it.map(|i| i.count())).is_ok(),
                    3 => store.get_download_policy(&ns).is_ok(),
                    4 => store.get_author(&w.author_id(0)).is_ok(),
                    _ => {
                        let r = store.content_hashes().map(|it| it.count()).is_ok();
                        if r {
                            flushed = Some(states.len() - 1);
                        }
                        r
                    }
                };
                if !ok {
                    failed = true;
                }
                states.push(m.clone());
            }
            COp::List { authors } => {
                let ok = if *authors { store.list_authors().map(|it| it.count()).is_ok() } else { store.list_namespaces().map(|it| it.count()).is_ok() };
                if ok {
                    flushed = Some(states.len() - 1);
                } else {
                    failed = true;
                }
                states.push(m.clone());
            }
        }
        disarm_age();
        if failed {
            if io_error.is_some() {
                io_failed = true;
                // after an injected I/O error the operation may fail; nothing more is executed
                op_end.push((states.len() - 1, disk.log_len()));
                flushed_after.push(None);
                calls.push(counter.get());
                break;
            } else {
                return Err(harness(format!("operation {k} ({op:?}) failed without an injected fault")));
            }
        }
        fired_any |= fired.get();
        op_end.push((states.len() - 1, disk.log_len()));
        flushed_after.push(flushed);
        calls.push(counter.get());
    }
    disk.freeze();
    drop(store);
    let _ = arm_age;
    Ok(Exec { disk, states, op_end, flushed_after, calls, fired: fired_any, io_failed })
}

fn classify(plan: &CrashPlan, k_in_progress: Option<usize>, placement: &[(usize, u32)]) -> String {
    // class built from what fails: which kind of operation was in progress and whether an
    // age-commit was placed inside an operation
    let opname = |k: usize| match &plan.ops[k] {
        COp::ImportCap { .. } => "import",
        COp::Offer { e, .. } => if e.is_marker() { "delete" } else { "insert" },
        COp::Message { .. } => "message",
        COp::SetPolicy { .. } => "policy",
        COp::Register { .. } => "register",
        COp::Remove { .. } => "remove",
        COp::Flush => "flush",
        COp::Read { .. } => "read",
        COp::List { .. } => "list",
        COp::Peek { .. } => "peek",
    };
    let inprog = k_in_progress.map(opname).unwrap_or("none");
    let placed = if placement.is_empty() { "no-age-commit".to_string() } else { format!("age-commit-inside-{}", placement.iter().map(|(k, _)| opname(*k)).collect::<Vec<_>>().join("+")) };
    format!("op={inprog}/{placed}")
}

/// Crash points of the very first open of a new database (file creation by redb, table setup,
/// migrations): every image that plain redb accepts must be opened by the store and show the
/// empty store - the only state it has passed through. Images that plain redb itself refuses (a
/// kill inside redb's own file initialisation) are redb's matter and are skipped.
fn creation_crashes(cx: &mut Cx) -> Res<u64> {
    let disk = SimDisk::new();
    disk.start_recording();
    let mut store = Store::verif_with_backend(disk.clone()).map_err(|e| harness(format!("create: {e:#}")))?;
    store.flush().map_err(|e| harness(format!("{e:#}")))?;
    disk.freeze();
    drop(store);
    let n = disk.log_len();
    let empty = expected(&vec![DocState::default(); crate::world::N_DOCS]);
    let mut judged = 0;
    let mut seen = std::collections::HashSet::new();
    for w in 0..=n {
        for loss in [Loss::L1, Loss::L2] {
            let image = disk.image_at(w, loss);
            if !seen.insert(fnv(&image) ^ image.len() as u64) {
                continue;
            }
            if !image.is_empty() {
                let plain = redb::Database::builder().create_with_backend(SimDisk::from_image(image.clone()));
                if plain.is_err() {
                    cx.fault("crash_inside_redb_file_initialisation_skipped");
                    continue;
                }
            }
            cx.fault("crash_during_first_open_judged");
            judged += 1;
            let what = format!("{loss:?} crash after disk op {w}/{n} of the first open of a new database");
            match reopen(image) {
                Err(e) => return Err(Violation::new("open-fails/op=create/no-age-commit", format!("{what}: plain redb opens the image, but the store fails on it: {e}"))),
                Ok(o) => {
                    if let Some((kind, detail)) = &o.inconsistent {
                        return Err(Violation::new(format!("inconsistent/{kind}/op=create/no-age-commit"), format!("{what}: {detail}")));
                    }
                    if o.docs != empty {
                        return Err(Violation::new("not-a-passed-state/op=create/no-age-commit", format!("{what}: the reopened store is not empty")));
                    }
                }
            }
        }
    }
    Ok(judged)
}

async fn run(plan: &CrashPlan, cx: &mut Cx) -> Res {
    let created = if plan.creation { creation_crashes(cx)? } else { 0 };
    // 1. baseline: count internal store calls per op
    let base = execute(plan, &[], None).await?;
    let mut placements: Vec<Vec<(usize, u32)>> = vec![vec![]];
    if plan.long {
        for a in &plan.single {
            if a.0 < base.calls.len() && a.1 < base.calls[a.0].max(1) {
                placements.push(vec![*a]);
            }
        }
    } else {
        for (k, n) in base.calls.iter().enumerate() {
            for j in 0..*n {
                placements.push(vec![(k, j)]);
            }
        }
    }
    for (a, b) in &plan.double {
        if a.0 < base.calls.len() && b.0 < base.calls.len() && a.1 < base.calls[a.0].max(1) && b.1 < base.calls[b.0].max(1) && a != b {
            placements.push(vec![*a, *b]);
        }
    }
    let mut cache: HashMap<u64, Result<std::rc::Rc<Obs>, String>> = HashMap::new();
    let mut judged = 0u64;
    for placement in &placements {
        let ex = if placement.is_empty() { execute(plan, &[], None).await? } else { execute(plan, placement, None).await? };
        if ex.fired {
            cx.fault("age_commit_inside_operation");
        }
        judged += judge(plan, &ex, placement, &mut cache, cx, plan.l3_samples > 0 && placement.len() <= 1, plan.seed)?;
    }
    // thorough: one extra run with an injected I/O error; the operation may fail, the store may
    // refuse further work, but no image may show content outside the passed states
    if let Some((at, kind)) = plan.io_error {
        let kind = match kind { 0 => FailKind::WriteEio, 1 => FailKind::SyncEio, _ => FailKind::NoSpace };
        let ex = execute(plan, &[], Some((at, kind))).await?;
        if ex.io_failed {
            cx.fault(match kind { FailKind::WriteEio => "disk_eio_write", FailKind::SyncEio => "disk_eio_sync", FailKind::NoSpace => "disk_enospc" });
        }
        judged += judge(plan, &ex, &[], &mut cache, cx, false, plan.seed)?;
    }
    cx.ev("enumerated", format!("ops={} placements={} judged={} images={}", plan.ops.len(), placements.len(), judged, cache.len()));
    for k in cache.keys() {
        cx.state(*k);
    }
    cx.evals = judged + created;
    Ok(())
}

/// Enumerate all crash points of one execution under L1 and L2 (plus sampled L3) and judge them.
fn judge(plan: &CrashPlan, ex: &Exec, placement: &[(usize, u32)], cache: &mut HashMap<u64, Result<std::rc::Rc<Obs>, String>>, cx: &mut Cx, l3: bool, seed: u64) -> Res<u64> {
    let n = ex.disk.log_len();
    // rolling hash of the log prefix identifies the image
    let mut hp: Vec<u64> = Vec::with_capacity(n + 1);
    let mut last_sync: Vec<usize> = Vec::with_capacity(n + 1);
    {
        let s = ex.disk.0.lock().unwrap();
        let mut h = 0x9E37_79B9_7F4A_7C15u64;
        let mut ls = 0usize;
        hp.push(h);
        last_sync.push(0);
        for (i, op) in s.log_ops().iter().enumerate() {
            h = match op {
                crate::disk::Op::Write { off, data } => (h ^ fnv(data) ^ off.rotate_left(32)).wrapping_mul(0x0000_0100_0000_01B3).rotate_left(7),
                crate::disk::Op::SetLen(l) => (h ^ l ^ 0xABCD).wrapping_mul(0x0000_0100_0000_01B3).rotate_left(9),
                crate::disk::Op::Sync => {
                    ls = i + 1;
                    h
                }
            };
            hp.push(h);
            last_sync.push(ls);
        }
    }
    let expected_obs: Vec<Vec<DocObs>> = ex.states.iter().map(expected).collect();
    let mut judged = 0u64;
    let mut rng = Rng::new(seed ^ 0x1357);
    let mut img = ex.disk.base_image();
    for w in 0..=n {
        if w > 0 {
            ex.disk.apply_logged(w - 1, &mut img);
        }
        // ops fully complete at log position w
        let done = ex.op_end.iter().take_while(|(_, end)| *end <= w).count();
        let lo_state = (0..done).rev().find_map(|k| ex.flushed_after[k]).unwrap_or(0);
        let hi_state = if done < ex.op_end.len() { ex.op_end[done].0 } else { ex.states.len() - 1 };
        let in_progress = if done < ex.op_end.len() { Some(done) } else { None };
        for loss in [Loss::L1, Loss::L2] {
            let eff = match loss { Loss::L1 => w, Loss::L2 => last_sync[w] };
            let key = hp[eff];
            if !cache.contains_key(&key) {
                // L2 images are L1 images of an earlier position and are normally cached already
                let image = if eff == w { img.clone() } else { ex.disk.image_at(eff, Loss::L1) };
                cache.insert(key, reopen(image));
                cx.fault("distinct_crash_image_reopened");
            }
            judged += 1;
            cx.fault(match loss { Loss::L1 => "crash_judged_L1", Loss::L2 => "crash_judged_L2" });
            check_image(plan, cache.get(&key).unwrap(), &expected_obs, lo_state, hi_state, in_progress, placement, &format!("{loss:?} crash after disk op {w}/{n}"))?;
        }
        if l3 && w > last_sync[w] && rng.chance(1, 4) {
            let tear = rng.chance(1, 3);
            let mut r2 = Rng::new(rng.next_u64());
            let image = ex.disk.image_at_subset(w, &mut |_| r2.chance(1, 2), tear);
            let obs = reopen(image);
            cx.fault(if tear { "crash_image_L3_torn" } else { "crash_image_L3_subset" });
            judged += 1;
            check_image(plan, &obs, &expected_obs, lo_state, hi_state, in_progress, placement, &format!("L3 crash after disk op {w}/{n} tear={tear}"))?;
        }
    }
    Ok(judged)
}

fn reopen(image: Vec<u8>) -> Result<std::rc::Rc<Obs>, String> {
    let d = SimDisk::from_image(image);
    let mut store = Store::verif_with_backend(d.clone()).map_err(|e| format!("{e:#}"))?;
    let o = observe(&mut store)?;
    d.freeze();
    drop(store);
    Ok(std::rc::Rc::new(o))
}

#[allow(clippy::too_many_arguments)]
fn check_image(plan: &CrashPlan, obs: &Result<std::rc::Rc<Obs>, String>, expected_obs: &[Vec<DocObs>], lo: usize, hi: usize, in_progress: Option<usize>, placement: &[(usize, u32)], what: &str) -> Res {
    let obs = match obs {
        Ok(o) => o,
        Err(e) => return Err(Violation::new(format!("open-fails/{}", classify(plan, in_progress, placement)), format!("{what}: the reopened store fails: {e}"))),
    };
    if let Some((kind, detail)) = &obs.inconsistent {
        return Err(Violation::new(format!("inconsistent/{kind}/{}", classify(plan, in_progress, placement)), format!("{what}: {detail}")));
    }
    if (lo..=hi).any(|i| expected_obs[i] == obs.docs) {
        return Ok(());
    }
    // older than the last flush?
    let class = if (0..lo).any(|i| expected_obs[i] == obs.docs) { "lost-flushed" } else { "not-a-passed-state" };
    let summary = |d: &[DocObs]| d.iter().map(|x| format!("{}e/{}p/{:?}", x.entries.len(), x.peers.as_ref().map(|p| p.len()).unwrap_or(0), x.cap)).collect::<Vec<_>>().join(" ");
    Err(Violation::new(
        format!("{class}/{}", classify(plan, in_progress, placement)),
        format!("{what} (placement {placement:?}): reopened store shows [{}], which is none of the states {lo}..={hi} the live store passed through (state {lo}: [{}], state {hi}: [{}])", summary(&obs.docs), summary(&expected_obs[lo]), summary(&expected_obs[hi])),
    ))
}

#[allow(dead_code)]
fn unused(_: DownloadPolicy) {}
