//! Batch execution, minimisation, replay files, known findings and evidence.

use std::{
    cell::RefCell,
    collections::{BTreeMap, BTreeSet},
    future::Future,
    panic::{catch_unwind, AssertUnwindSafe},
    sync::{
        atomic::{AtomicBool, AtomicU64, Ordering},
        Mutex,
    },
    time::{Duration, Instant},
};

use serde::{de::DeserializeOwned, Serialize};
use serde_json::{json, Value};

use crate::rng::{fnv, Rng};

#[derive(Clone, Copy, Debug, PartialEq, Eq)]
pub enum Tier {
    Quick,
    Thorough,
}

impl Tier {
    pub fn name(&self) -> &'static str {
        match self {
            Tier::Quick => "quick",
            Tier::Thorough => "thorough",
        }
    }
    /// pick by tier
    pub fn pick<T>(&self, quick: T, thorough: T) -> T {
        match self {
            Tier::Quick => quick,
            Tier::Thorough => thorough,
        }
    }
}

#[derive(Clone, Debug)]
pub struct Violation {
    /// Short stable class built from *what* fails, e.g. `offer-state/extra`; first path
    /// component is the oracle id.
    pub class: String,
    pub detail: String,
}

impl Violation {
    pub fn new(class: impl Into<String>, detail: impl Into<String>) -> Self {
        Violation { class: class.into(), detail: detail.into() }
    }
    pub fn oracle(&self) -> &str {
        self.class.split('/').next().unwrap_or("")
    }
}

/// Raised by scenario code when the harness itself is at fault (never a property violation).
#[derive(Debug)]
pub struct HarnessError(pub String);

pub type Res<T = ()> = Result<T, Violation>;

/// Per-run context: event log (hashed), fault counters, probes, simulated time.
#[derive(Default)]
pub struct Cx {
    pub log_hash: u64,
    pub shape_hash: u64,
    pub log: Option<Vec<String>>,
    pub faults: BTreeMap<&'static str, u64>,
    pub probes: BTreeMap<String, u64>,
    pub sim_ms: u64,
    pub states: BTreeSet<u64>,
    pub steps: u64,
    /// number of judged cases when one run judges many (e.g. crash images); 0 = the run itself
    pub evals: u64,
}

impl Cx {
    pub fn new(verbose: bool) -> Self {
        Cx { log_hash: 0xcbf2_9ce4_8422_2325, shape_hash: 0xcbf2_9ce4_8422_2325, log: verbose.then(Vec::new), ..Default::default() }
    }
    /// Record an event in the deterministic event log. `kind` goes into the interleaving shape
    /// hash, `detail` additionally into the full log hash.
    pub fn ev(&mut self, kind: &str, detail: impl AsRef<str>) {
        let d = detail.as_ref();
        self.shape_hash = (self.shape_hash ^ fnv(kind.as_bytes())).wrapping_mul(0x0000_0100_0000_01B3);
        self.log_hash = (self.log_hash ^ fnv(kind.as_bytes())).wrapping_mul(0x0000_0100_0000_01B3);
        self.log_hash = (self.log_hash ^ fnv(d.as_bytes())).wrapping_mul(0x0000_0100_0000_01B3);
        self.steps += 1;
        if let Some(l) = self.log.as_mut() {
            l.push(format!("{kind} {d}"));
        }
    }
    pub fn fault(&mut self, kind: &'static str) {
        *self.faults.entry(kind).or_insert(0) += 1;
    }
    pub fn probe(&mut self, site: &str) {
        *self.probes.entry(site.to_string()).or_insert(0) += 1;
    }
    pub fn state(&mut self, h: u64) {
        if self.states.len() < 65536 {
            self.states.insert(h);
        }
    }
    pub fn nontrivial(&self) -> bool {
        !self.faults.is_empty() || !self.probes.is_empty()
    }
}

/// A scenario: plan generation is a pure function of the rng; execution a pure function of the
/// plan and the code under test.
pub trait Scenario: Sync + Send {
    type Plan: Serialize + DeserializeOwned + Clone + Send;
    fn name(&self) -> String;
    fn gen(&self, rng: &mut Rng, tier: Tier) -> Self::Plan;
    fn exec(&self, plan: &Self::Plan, cx: &mut Cx) -> Res;
    /// Candidate simplifications of a failing plan, most aggressive first.
    fn shrink(&self, _plan: &Self::Plan) -> Vec<Self::Plan> {
        Vec::new()
    }
    /// A few words saying what is real and what is stubbed in this scenario.
    fn components(&self) -> (Vec<&'static str>, Vec<&'static str>);
    /// How runs are generated and what makes one non-trivial.
    fn rule(&self) -> String;
}

/// Candidate reductions of a step vector: remove chunks of decreasing size.
pub fn shrink_vec<T: Clone>(v: &[T]) -> Vec<Vec<T>> {
    let n = v.len();
    let mut out = Vec::new();
    if n == 0 {
        return out;
    }
    let mut chunk = n.div_ceil(2);
    loop {
        let mut start = 0;
        while start < n {
            let end = (start + chunk).min(n);
            let mut c = Vec::with_capacity(n - (end - start));
            c.extend_from_slice(&v[..start]);
            c.extend_from_slice(&v[end..]);
            out.push(c);
            start = end;
        }
        if chunk == 1 {
            break;
        }
        chunk = chunk.div_ceil(2);
    }
    out
}

thread_local! {
    static PANIC_LOC: RefCell<Option<String>> = const { RefCell::new(None) };
}

pub fn install_panic_hook() {
    let default = std::panic::take_hook();
    std::panic::set_hook(Box::new(move |info| {
        let loc = info
            .location()
            .map(|l| format!("{}:{}", l.file(), l.line()))
            .unwrap_or_else(|| "unknown".into());
        let msg = if let Some(s) = info.payload().downcast_ref::<&str>() {
            s.to_string()
        } else if let Some(s) = info.payload().downcast_ref::<String>() {
            s.clone()
        } else {
            String::new()
        };
        PANIC_LOC.with(|p| *p.borrow_mut() = Some(format!("{loc}|{msg}")));
        if std::env::var_os("VERIF_SHOW_PANICS").is_some() {
            default(info);
        }
    }));
}

/// If a panic was recorded on this thread (e.g. inside a spawned task, where tokio catches it),
/// turn it into a violation (code under test) or a harness error (anything else).
pub fn recorded_panic() -> Option<Violation> {
    let loc = PANIC_LOC.with(|p| p.borrow_mut().take())?;
    let (place, msg) = loc.split_once('|').unwrap_or((&loc, ""));
    if let Some(idx) = place.find("/repo/src/") {
        let rel = &place[idx + "/repo/".len()..];
        Some(Violation::new(format!("panic/{rel}"), format!("panic at {place}: {msg}")))
    } else {
        Some(Violation::new("harness/panic", format!("panic outside the code under test at {place}: {msg}")))
    }
}

pub enum RunResult {
    Ok,
    Violation(Violation),
    Harness(String),
}

/// Reset all thread-local hook state of the code under test.
pub fn reset_hooks() {
    iroh_docs::verif::set_wall_clock_micros(None);
    iroh_docs::verif::set_txn_age_cb(None);
    iroh_docs::verif::set_sync_config(None);
    let _ = iroh_docs::verif::take_probes();
}

/// Execute one plan with panic capture. Panics located in the code under test are violations
/// (`panic/<file>:<line>`); panics anywhere else are harness errors.
pub fn exec_guarded<S: Scenario>(s: &S, plan: &S::Plan, cx: &mut Cx) -> RunResult {
    reset_hooks();
    PANIC_LOC.with(|p| *p.borrow_mut() = None);
    let r = catch_unwind(AssertUnwindSafe(|| s.exec(plan, cx)));
    for (k, v) in iroh_docs::verif::take_probes() {
        *cx.probes.entry(k.to_string()).or_insert(0) += v;
    }
    reset_hooks();
    // a panic inside a spawned task is caught by tokio; it still counts
    let r = match r {
        Ok(inner) => match recorded_panic() {
            Some(v) => Ok(Err(v)),
            None => Ok(inner),
        },
        Err(e) => Err(e),
    };
    match r {
        Ok(Ok(())) => RunResult::Ok,
        Ok(Err(v)) => {
            if v.class.starts_with("harness/") {
                RunResult::Harness(format!("{}: {}", v.class, v.detail))
            } else {
                RunResult::Violation(v)
            }
        }
        Err(_) => {
            let loc = PANIC_LOC.with(|p| p.borrow_mut().take()).unwrap_or_else(|| "unknown|".into());
            let (place, msg) = loc.split_once('|').unwrap_or((&loc, ""));
            if let Some(idx) = place.find("/repo/src/") {
                let rel = &place[idx + "/repo/".len()..];
                RunResult::Violation(Violation::new(format!("panic/{rel}"), format!("panic at {place}: {msg}")))
            } else {
                RunResult::Harness(format!("panic outside the code under test at {place}: {msg}"))
            }
        }
    }
}

/// Run a future on a fresh paused current-thread runtime with a seeded scheduler inside a LocalSet.
pub fn block_on_sim<F: Future>(seed: u64, fut: F) -> F::Output {
    let rt = tokio::runtime::Builder::new_current_thread()
        .enable_time()
        .start_paused(true)
        .rng_seed(tokio::runtime::RngSeed::from_bytes(&seed.to_le_bytes()))
        .build()
        .expect("runtime");
    let local = tokio::task::LocalSet::new();
    let out = local.block_on(&rt, fut);
    drop(local);
    drop(rt);
    out
}

/// The quiescence barrier: returns only when every other task is blocked. Costs 1 ms virtual.
pub async fn barrier() {
    tokio::time::sleep(Duration::from_nanos(1)).await;
}

#[derive(Default, Clone)]
pub struct Stats {
    pub evals: u64,
    pub runs: u64,
    pub nontrivial_runs: u64,
    pub faults: BTreeMap<String, u64>,
    pub probes: BTreeMap<String, u64>,
    pub sim_ms: u64,
    pub steps: u64,
    pub shapes: BTreeSet<u64>,
    pub nontrivial_distinct: BTreeSet<u64>,
    pub states: BTreeSet<u64>,
}

impl Stats {
    fn absorb(&mut self, cx: &Cx) {
        self.runs += 1;
        self.evals += cx.evals.max(1);
        for (k, v) in &cx.faults {
            *self.faults.entry(k.to_string()).or_insert(0) += v;
        }
        for (k, v) in &cx.probes {
            *self.probes.entry(k.clone()).or_insert(0) += v;
        }
        self.sim_ms += cx.sim_ms;
        self.steps += cx.steps;
        if self.shapes.len() < 2_000_000 {
            self.shapes.insert(cx.shape_hash);
        }
        if cx.nontrivial() {
            self.nontrivial_runs += 1;
            if self.nontrivial_distinct.len() < 2_000_000 {
                self.nontrivial_distinct.insert(cx.log_hash);
            }
        }
        for s in &cx.states {
            if self.states.len() < 2_000_000 {
                self.states.insert(*s);
            }
        }
    }
    pub fn merge(&mut self, o: &Stats) {
        self.runs += o.runs;
        self.evals += o.evals;
        self.nontrivial_runs += o.nontrivial_runs;
        for (k, v) in &o.faults {
            *self.faults.entry(k.clone()).or_insert(0) += v;
        }
        for (k, v) in &o.probes {
            *self.probes.entry(k.clone()).or_insert(0) += v;
        }
        self.sim_ms += o.sim_ms;
        self.steps += o.steps;
        self.shapes.extend(o.shapes.iter().copied());
        self.nontrivial_distinct.extend(o.nontrivial_distinct.iter().copied());
        self.states.extend(o.states.iter().copied());
    }
}

pub struct Found {
    pub run: u64,
    pub violation: Violation,
    pub plan: Value,
    pub minimized: Value,
    pub min_violation: Violation,
    pub log_hash: u64,
    pub shrink_execs: u64,
}

pub struct BatchOut {
    pub scenario: String,
    pub stats: Stats,
    pub found: Vec<Found>,
    pub harness_errors: Vec<String>,
    pub samples: Vec<Value>,
    pub wall_s: f64,
    pub rule: String,
    pub components: (Vec<&'static str>, Vec<&'static str>),
    pub runs_requested: u64,
}

pub struct BatchCfg {
    pub seed: u64,
    pub tier: Tier,
    pub runs: u64,
    pub threads: usize,
    pub wall_cap: Duration,
}

pub fn threads() -> usize {
    std::env::var("VERIF_THREADS")
        .ok()
        .and_then(|s| s.parse().ok())
        .unwrap_or_else(|| std::thread::available_parallelism().map(|n| n.get()).unwrap_or(8).min(16))
}

fn minimise<S: Scenario>(s: &S, plan: &S::Plan, v: &Violation) -> (S::Plan, Violation, u64, u64) {
    // a candidate is accepted only if exactly the same class still fires, so that minimisation
    // can never turn one kind of failure into another (known findings are matched by class)
    let class = v.class.clone();
    let mut best = plan.clone();
    let mut best_v = v.clone();
    let mut best_hash = 0;
    let mut execs = 0u64;
    let start = Instant::now();
    'outer: loop {
        let cands = s.shrink(&best);
        for c in cands {
            if execs >= 2000 || start.elapsed() > Duration::from_secs(60) {
                break 'outer;
            }
            execs += 1;
            let mut cx = Cx::new(false);
            if let RunResult::Violation(v2) = exec_guarded(s, &c, &mut cx) {
                if v2.class == class {
                    best = c;
                    best_v = v2;
                    best_hash = cx.log_hash;
                    continue 'outer;
                }
            }
        }
        break;
    }
    if best_hash == 0 {
        let mut cx = Cx::new(false);
        let _ = exec_guarded(s, &best, &mut cx);
        best_hash = cx.log_hash;
    }
    (best, best_v, best_hash, execs)
}

pub fn run_batch<S: Scenario>(s: &S, cfg: &BatchCfg) -> BatchOut {
    let name = s.name();
    let next = AtomicU64::new(0);
    let stop = AtomicBool::new(false);
    let stats = Mutex::new(Stats::default());
    let found: Mutex<BTreeMap<String, (u64, Violation, S::Plan)>> = Mutex::new(BTreeMap::new());
    let harness: Mutex<Vec<String>> = Mutex::new(Vec::new());
    let samples: Mutex<BTreeMap<u64, Value>> = Mutex::new(BTreeMap::new());
    let start = Instant::now();
    std::thread::scope(|sc| {
        for _ in 0..cfg.threads.max(1) {
            sc.spawn(|| {
                let mut local = Stats::default();
                loop {
                    if stop.load(Ordering::Relaxed) {
                        break;
                    }
                    let run = next.fetch_add(1, Ordering::Relaxed);
                    if run >= cfg.runs || start.elapsed() > cfg.wall_cap {
                        break;
                    }
                    let mut rng = Rng::for_run(cfg.seed, &name, run);
                    let plan = s.gen(&mut rng, cfg.tier);
                    let mut cx = Cx::new(false);
                    let res = exec_guarded(s, &plan, &mut cx);
                    local.absorb(&cx);
                    if run < 3 {
                        if let Ok(v) = serde_json::to_value(&plan) {
                            samples.lock().unwrap().insert(run, v);
                        }
                    }
                    match res {
                        RunResult::Ok => {}
                        RunResult::Violation(v) => {
                            let mut f = found.lock().unwrap();
                            let e = f.entry(v.class.clone());
                            let replace = match &e {
                                std::collections::btree_map::Entry::Occupied(o) => o.get().0 > run,
                                _ => true,
                            };
                            if replace {
                                f.insert(v.class.clone(), (run, v, plan));
                            }
                            if f.len() >= 4 {
                                stop.store(true, Ordering::Relaxed);
                            }
                        }
                        RunResult::Harness(m) => {
                            harness.lock().unwrap().push(format!("run {run}: {m}"));
                            stop.store(true, Ordering::Relaxed);
                        }
                    }
                }
                stats.lock().unwrap().merge(&local);
            });
        }
    });
    let stats = stats.into_inner().unwrap();
    let mut out_found = Vec::new();
    // minimise one representative per oracle (classes of the same oracle usually share a cause)
    let mut seen_oracles: BTreeSet<String> = BTreeSet::new();
    let mut items: Vec<_> = found.into_inner().unwrap().into_values().collect();
    items.sort_by_key(|(run, _, _)| *run);
    for (run, v, plan) in items {
        let _ = &mut seen_oracles;
        if out_found.len() >= 4 {
            break;
        }
        let (min, min_v, hash, execs) = minimise(s, &plan, &v);
        out_found.push(Found {
            run,
            violation: v,
            plan: serde_json::to_value(&plan).unwrap_or(Value::Null),
            minimized: serde_json::to_value(&min).unwrap_or(Value::Null),
            min_violation: min_v,
            log_hash: hash,
            shrink_execs: execs,
        });
    }
    BatchOut {
        scenario: name,
        stats,
        found: out_found,
        harness_errors: harness.into_inner().unwrap(),
        samples: samples.into_inner().unwrap().into_values().collect(),
        wall_s: start.elapsed().as_secs_f64(),
        rule: s.rule(),
        components: s.components(),
        runs_requested: cfg.runs,
    }
}

/// Re-execute a plan from a replay file; returns (violation, log hash, log lines).
pub fn replay_plan<S: Scenario>(s: &S, plan: Value) -> Result<(Option<Violation>, u64, Vec<String>), String> {
    let plan: S::Plan = serde_json::from_value(plan).map_err(|e| format!("bad plan: {e}"))?;
    let mut cx = Cx::new(true);
    let r = exec_guarded(s, &plan, &mut cx);
    let log = cx.log.take().unwrap_or_default();
    match r {
        RunResult::Ok => Ok((None, cx.log_hash, log)),
        RunResult::Violation(v) => Ok((Some(v), cx.log_hash, log)),
        RunResult::Harness(m) => Err(m),
    }
}

// ---------------------------------------------------------------------------------------------
// Known findings

#[derive(serde::Deserialize, Debug, Clone)]
pub struct KnownFinding {
    pub property: String,
    pub class: String,
    pub description: String,
    #[serde(default)]
    pub replay: Option<String>,
}

#[derive(serde::Deserialize, Debug, Default)]
pub struct KnownFile {
    #[serde(default)]
    pub findings: Vec<KnownFinding>,
    #[serde(default)]
    pub fixed: Vec<String>,
}

pub fn load_known() -> KnownFile {
    let p = verif_root().join("known_findings.json");
    match std::fs::read_to_string(&p) {
        Ok(s) => serde_json::from_str(&s).unwrap_or_else(|e| {
            eprintln!("harness error: cannot parse {}: {e}", p.display());
            std::process::exit(2)
        }),
        Err(_) => KnownFile::default(),
    }
}

pub fn verif_root() -> std::path::PathBuf {
    std::env::var_os("VERIF_ROOT").map(Into::into).unwrap_or_else(|| "/verif".into())
}

// ---------------------------------------------------------------------------------------------
// Check result → evidence, replay files, exit code

pub struct CheckOut {
    pub property: String,
    pub level: &'static str,
    pub batches: Vec<BatchOut>,
    pub extra: BTreeMap<String, Value>,
    pub assumptions: Vec<String>,
    pub exhaustive: Option<bool>,
    /// count distinct judged states (e.g. crash images) instead of distinct run logs
    pub distinct_is_states: bool,
}

pub fn finish_check(out: CheckOut, tier: Tier, seed: u64, wall: Instant) -> i32 {
    let root = verif_root();
    let known = load_known();
    let mut exit = 0;
    let mut violations = 0u64;
    let mut known_hits: Vec<String> = Vec::new();
    std::fs::create_dir_all(root.join("replays")).ok();
    std::fs::create_dir_all(root.join("evidence")).ok();
    let mut harness = Vec::new();
    for b in &out.batches {
        harness.extend(b.harness_errors.iter().cloned());
        for f in &b.found {
            let class = &f.min_violation.class;
            if let Some(k) = known.findings.iter().find(|k| k.property == out.property && &k.class == class) {
                println!("KNOWN-FINDING: property={} {} — {}", out.property, k.class, k.description);
                known_hits.push(k.class.clone());
                continue;
            }
            violations += 1;
            exit = 1;
            let path = root.join("replays").join(format!("{}-{}-{}-{}.json", out.property, b.scenario, seed, f.run));
            let file = json!({
                "property": out.property,
                "scenario": b.scenario,
                "seed": seed,
                "run": f.run,
                "tier": tier.name(),
                "expect": { "class": class, "log_hash": format!("{:016x}", f.log_hash) },
                "violation": { "class": class, "detail": f.min_violation.detail },
                "original_violation": { "class": f.violation.class, "detail": f.violation.detail },
                "shrink_execs": f.shrink_execs,
                "plan": f.minimized,
                "original_plan": f.plan,
            });
            std::fs::write(&path, serde_json::to_string_pretty(&file).unwrap()).ok();
            println!("violation class={} detail={}", class, f.min_violation.detail.chars().take(600).collect::<String>());
            println!("VIOLATION property={} replay={}", out.property, path.display());
        }
    }
    if !harness.is_empty() {
        for h in harness.iter().take(5) {
            eprintln!("harness error: {h}");
        }
        // a violation with a replay file stands on its own: code that breaks a property often
        // also trips the harness' expectations about operations that must succeed
        if exit != 1 {
            return 2;
        }
    }
    // evidence
    let mut total = Stats::default();
    for b in &out.batches {
        total.merge(&b.stats);
    }
    let wall_s = wall.elapsed().as_secs_f64();
    let mut samples: Vec<Value> = Vec::new();
    for b in &out.batches {
        for s in b.samples.iter().take(2) {
            samples.push(json!({"scenario": b.scenario, "plan": s}));
        }
    }
    if samples.is_empty() {
        samples.push(json!("no sample recorded"));
    }
    let batches: Vec<Value> = out
        .batches
        .iter()
        .map(|b| {
            json!({
                "scenario": b.scenario,
                "runs": b.stats.runs,
                "evaluations": b.stats.evals,
                "runs_requested": b.runs_requested,
                "wall_s": (b.wall_s * 1000.0).round() / 1000.0,
                "runs_per_hour": if b.wall_s > 0.0 { (b.stats.runs as f64 / b.wall_s * 3600.0) as u64 } else { 0 },
                "simulated_seconds": b.stats.sim_ms as f64 / 1000.0,
                "steps": b.stats.steps,
                "faults_fired": b.stats.faults,
                "rare_branch_probes": b.stats.probes,
                "distinct_interleavings": b.stats.shapes.len(),
                "distinct_abstract_states": b.stats.states.len(),
                "nontrivial_runs": b.stats.nontrivial_runs,
                "real_components": b.components.0,
                "stubbed_components": b.components.1,
                "rule": b.rule,
            })
        })
        .collect();
    let rule = out.batches.iter().map(|b| format!("[{}] {}", b.scenario, b.rule)).collect::<Vec<_>>().join(" ");
    let mut coverage = serde_json::Map::new();
    coverage.insert("evaluations".into(), json!(total.evals));
    coverage.insert("runs".into(), json!(total.runs));
    let distinct = if out.distinct_is_states { total.states.len() } else { total.nontrivial_distinct.len() };
    coverage.insert("distinct_nontrivial".into(), json!(distinct));
    coverage.insert("distinct_nontrivial_runs".into(), json!(total.nontrivial_distinct.len()));
    coverage.insert(
        "rule".into(),
        json!(format!(
            "{rule} A run counts as non-trivial when at least one fault kind actually fired or one rare-branch probe was hit; distinct = distinct hashes of the full event log among those runs{}.", if out.distinct_is_states { " (here: distinct judged states, i.e. distinct reopened crash images by rolling hash of the write-log prefix)" } else { "" }
        )),
    );
    coverage.insert("samples".into(), Value::Array(samples));
    coverage.insert("seeds".into(), json!({"master_seed": seed, "runs_derive": "xoshiro256**(seed, scenario, run index)"}));
    coverage.insert("runs_per_hour".into(), json!(if wall_s > 0.0 { (total.runs as f64 / wall_s * 3600.0) as u64 } else { 0 }));
    coverage.insert("simulated_seconds".into(), json!(total.sim_ms as f64 / 1000.0));
    coverage.insert("faults_fired".into(), json!(total.faults));
    coverage.insert("rare_branch_probes".into(), json!(total.probes));
    coverage.insert("distinct_interleavings".into(), json!(total.shapes.len()));
    coverage.insert("distinct_abstract_states".into(), json!(total.states.len()));
    coverage.insert("measures".into(), json!({
        "distinct_interleavings": "distinct sequences of event kinds in the per-run event log (shape hash; details such as keys and byte counts excluded)",
        "distinct_abstract_states": "scenario-specific abstract states recorded during the run: coord/coord-real = (sync state of both peers for each other, resync flags, number of unresolved dials); crash = distinct reopened crash images; pair = (messages, |A|, |B|); swarm/events = final state digest; others record none",
        "distinct_nontrivial": "distinct full event-log hashes among runs in which at least one fault kind fired or a rare-branch probe was hit",
        "faults_fired": "number of times each fault kind actually took effect (not merely was enabled)",
        "simulated_seconds": "virtual time advanced by the paused clock (barriers count 1 ms each); store-level scenarios have no clock and report 0"
    }));
    coverage.insert("batches".into(), Value::Array(batches));
    coverage.insert("known_findings_hit".into(), json!(known_hits));
    if let Some(e) = out.exhaustive {
        coverage.insert("exhaustive".into(), json!(e));
    }
    for (k, v) in out.extra {
        coverage.insert(k, v);
    }
    let ev = json!({
        "property_id": out.property,
        "tier": tier.name(),
        "seed": seed,
        "level": out.level,
        "coverage": Value::Object(coverage),
        "assumptions": out.assumptions,
        "wall_s": (wall_s * 1000.0).round() / 1000.0,
        "violations": violations,
    });
    let path = root.join("evidence").join(format!("{}.json", out.property));
    if let Err(e) = std::fs::write(&path, serde_json::to_string_pretty(&ev).unwrap()) {
        eprintln!("harness error: cannot write {}: {e}", path.display());
        return 2;
    }
    println!(
        "property={} tier={} seed={} runs={} distinct_nontrivial={} wall_s={:.1} violations={} known={}",
        out.property,
        tier.name(),
        seed,
        total.runs,
        total.nontrivial_distinct.len(),
        wall_s,
        violations,
        known_hits.len()
    );
    exit
}
