//! `SimDisk`: the simulated storage device under redb (implements `redb::StorageBackend`).
//!
//! It distinguishes what has been written from what has been made durable by `sync_data`, can
//! record the complete operation log so that the image at *any* earlier instant can be rebuilt,
//! and injects I/O errors. After a crash the device is frozen: later writes (for example from
//! `Drop for Store`, which flushes) are silently ignored and cannot leak post-crash state.

use std::{
    io,
    sync::{Arc, Mutex},
};

#[derive(Clone, Debug)]
pub enum Op {
    Write { off: u64, data: Vec<u8> },
    SetLen(u64),
    Sync,
}

#[derive(Clone, Copy, Debug, PartialEq, Eq)]
pub enum FailKind {
    /// EIO from `write`.
    WriteEio,
    /// EIO from `sync_data`.
    SyncEio,
    /// ENOSPC from `set_len`.
    NoSpace,
}

#[derive(Debug, Default)]
pub struct DiskState {
    cur: Vec<u8>,
    durable: Vec<u8>,
    pending: Vec<Op>,
    base: Vec<u8>,
    log: Vec<Op>,
    record: bool,
    frozen: bool,
    /// counts every mutating call (write, set_len, sync)
    pub ops: u64,
    pub writes: u64,
    pub syncs: u64,
    pub set_lens: u64,
    pub bytes_written: u64,
    fail: Option<(u64, FailKind)>,
    failing: bool,
    pub errors_injected: u64,
}

#[derive(Clone, Debug, Default)]
pub struct SimDisk(pub Arc<Mutex<DiskState>>);

fn apply(img: &mut Vec<u8>, op: &Op) {
    match op {
        Op::Write { off, data } => {
            let off = *off as usize;
            if img.len() < off + data.len() {
                img.resize(off + data.len(), 0);
            }
            img[off..off + data.len()].copy_from_slice(data);
        }
        Op::SetLen(len) => img.resize(*len as usize, 0),
        Op::Sync => {}
    }
}

#[derive(Clone, Copy, Debug, PartialEq, Eq)]
pub enum Loss {
    /// Process killed, OS survives: everything written so far is in the image.
    L1,
    /// Power loss: only what was synced survives.
    L2,
}

impl SimDisk {
    pub fn new() -> Self {
        Self::default()
    }

    pub fn from_image(img: Vec<u8>) -> Self {
        let d = SimDisk::default();
        {
            let mut s = d.0.lock().unwrap();
            s.cur = img.clone();
            s.durable = img;
        }
        d
    }

    /// Start recording every operation (for later `image_at`).
    pub fn start_recording(&self) {
        let mut s = self.0.lock().unwrap();
        s.record = true;
        s.base = s.cur.clone();
        s.log.clear();
    }

    /// Number of recorded operations so far.
    pub fn log_len(&self) -> usize {
        self.0.lock().unwrap().log.len()
    }

    /// (writes, syncs) among the first `n` recorded ops
    pub fn log_kind(&self, i: usize) -> &'static str {
        match self.0.lock().unwrap().log[i] {
            Op::Write { .. } => "write",
            Op::SetLen(_) => "set_len",
            Op::Sync => "sync",
        }
    }

    /// The image as it would be after the first `n` recorded operations, under a loss model.
    pub fn image_at(&self, n: usize, loss: Loss) -> Vec<u8> {
        let s = self.0.lock().unwrap();
        let upto = match loss {
            Loss::L1 => n,
            Loss::L2 => s.log[..n]
                .iter()
                .rposition(|op| matches!(op, Op::Sync))
                .map(|i| i + 1)
                .unwrap_or(0),
        };
        let mut img = s.base.clone();
        for op in &s.log[..upto] {
            apply(&mut img, op);
        }
        img
    }

    /// L3 image after `n` recorded ops: synced prefix plus the subset of later whole writes
    /// selected by `keep` (set_len always applies); optionally the last kept write is torn to a
    /// 512-byte-aligned prefix.
    pub fn image_at_subset(&self, n: usize, keep: &mut dyn FnMut(usize) -> bool, tear_last: bool) -> Vec<u8> {
        let s = self.0.lock().unwrap();
        let synced = s.log[..n]
            .iter()
            .rposition(|op| matches!(op, Op::Sync))
            .map(|i| i + 1)
            .unwrap_or(0);
        let mut img = s.base.clone();
        for op in &s.log[..synced] {
            apply(&mut img, op);
        }
        let kept: Vec<usize> = (synced..n)
            .filter(|i| match &s.log[*i] {
                Op::Write { .. } => keep(*i),
                _ => true,
            })
            .collect();
        let last_write = kept.iter().rev().find(|i| matches!(s.log[**i], Op::Write { .. })).copied();
        for i in kept {
            match (&s.log[i], tear_last && Some(i) == last_write) {
                (Op::Write { off, data }, true) => {
                    let cut = (data.len() / 2) / 512 * 512;
                    apply(&mut img, &Op::Write { off: *off, data: data[..cut].to_vec() });
                }
                (op, _) => apply(&mut img, op),
            }
        }
        img
    }

    /// The image at the moment recording started.
    pub fn base_image(&self) -> Vec<u8> {
        self.0.lock().unwrap().base.clone()
    }

    /// Apply the `i`-th recorded operation to an image being built incrementally.
    pub fn apply_logged(&self, i: usize, img: &mut Vec<u8>) {
        let s = self.0.lock().unwrap();
        apply(img, &s.log[i]);
    }

    /// Crash now: freeze the device and return the surviving image.
    pub fn crash(&self, loss: Loss) -> Vec<u8> {
        let mut s = self.0.lock().unwrap();
        s.frozen = true;
        match loss {
            Loss::L1 => s.cur.clone(),
            Loss::L2 => s.durable.clone(),
        }
    }

    pub fn freeze(&self) {
        self.0.lock().unwrap().frozen = true;
    }

    /// What a kill at this instant would leave under loss model L2 (synced writes only), without
    /// ending the life of the device.
    pub fn durable_image(&self) -> Vec<u8> {
        self.0.lock().unwrap().durable.clone()
    }

    /// Current full image (what a clean shutdown leaves). Must not be used after `freeze`.
    pub fn image(&self) -> Vec<u8> {
        let s = self.0.lock().unwrap();
        assert!(!s.frozen, "image() after freeze would leak post-crash writes");
        s.cur.clone()
    }

    /// Fail the `n`-th mutating call from now (0 = the next one) if it is of the right kind;
    /// once failing, every later mutating call fails too (a dead device) until `heal`.
    pub fn fail_after(&self, n: u64, kind: FailKind) {
        let mut s = self.0.lock().unwrap();
        let at = s.ops + n;
        s.fail = Some((at, kind));
    }

    pub fn heal(&self) {
        let mut s = self.0.lock().unwrap();
        s.fail = None;
        s.failing = false;
    }

    pub fn counters(&self) -> (u64, u64, u64, u64) {
        let s = self.0.lock().unwrap();
        (s.writes, s.syncs, s.set_lens, s.errors_injected)
    }
    pub fn ops(&self) -> u64 {
        self.0.lock().unwrap().ops
    }
}

impl DiskState {
    pub fn log_ops(&self) -> &[Op] {
        &self.log
    }
    fn check_fail(&mut self, which: FailKind) -> io::Result<()> {
        if self.failing {
            self.errors_injected += 1;
            return Err(io::Error::new(io::ErrorKind::Other, "simdisk: device failed"));
        }
        if let Some((at, kind)) = self.fail {
            if self.ops >= at && kind == which {
                self.failing = true;
                self.errors_injected += 1;
                return Err(match kind {
                    FailKind::NoSpace => io::Error::new(io::ErrorKind::StorageFull, "simdisk: ENOSPC"),
                    _ => io::Error::new(io::ErrorKind::Other, "simdisk: EIO"),
                });
            }
        }
        Ok(())
    }
    fn push(&mut self, op: Op) {
        if self.record {
            self.log.push(op.clone());
        }
        self.pending.push(op);
    }
}

impl redb::StorageBackend for SimDisk {
    fn len(&self) -> io::Result<u64> {
        Ok(self.0.lock().unwrap().cur.len() as u64)
    }

    fn read(&self, off: u64, out: &mut [u8]) -> io::Result<()> {
        let s = self.0.lock().unwrap();
        let off = off as usize;
        if off + out.len() > s.cur.len() {
            return Err(io::ErrorKind::UnexpectedEof.into());
        }
        out.copy_from_slice(&s.cur[off..off + out.len()]);
        Ok(())
    }

    fn set_len(&self, len: u64) -> io::Result<()> {
        let mut s = self.0.lock().unwrap();
        if s.frozen {
            // after the crash instant the device keeps reads coherent for the dying process,
            // but nothing it does is recorded or becomes part of any crash image
            s.cur.resize(len as usize, 0);
            return Ok(());
        }
        s.check_fail(FailKind::NoSpace)?;
        s.ops += 1;
        s.set_lens += 1;
        s.cur.resize(len as usize, 0);
        s.push(Op::SetLen(len));
        Ok(())
    }

    fn sync_data(&self) -> io::Result<()> {
        let mut s = self.0.lock().unwrap();
        if s.frozen {
            return Ok(());
        }
        s.check_fail(FailKind::SyncEio)?;
        s.ops += 1;
        s.syncs += 1;
        let pending = std::mem::take(&mut s.pending);
        for op in &pending {
            apply(&mut s.durable, op);
        }
        if s.record {
            s.log.push(Op::Sync);
        }
        Ok(())
    }

    fn write(&self, off: u64, data: &[u8]) -> io::Result<()> {
        let mut s = self.0.lock().unwrap();
        if s.frozen {
            let o = off as usize;
            if o + data.len() <= s.cur.len() {
                s.cur[o..o + data.len()].copy_from_slice(data);
            }
            return Ok(());
        }
        s.check_fail(FailKind::WriteEio)?;
        let o = off as usize;
        if o + data.len() > s.cur.len() {
            return Err(io::ErrorKind::UnexpectedEof.into());
        }
        s.ops += 1;
        s.writes += 1;
        s.bytes_written += data.len() as u64;
        s.cur[o..o + data.len()].copy_from_slice(data);
        s.push(Op::Write { off, data: data.to_vec() });
        Ok(())
    }
}
