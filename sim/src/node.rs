//! A node: a store run by the real store actor (`SyncHandle`) as a local task on the simulator's
//! paused runtime, with its own simulated wall clock.

use std::{
    cell::Cell,
    future::Future,
    pin::Pin,
    rc::Rc,
    task::{Context, Poll},
};

use iroh_docs::{actor::SyncHandle, store::Store};

use crate::runner::{Res, Violation};

/// Future adapter: while the inner future is polled, the thread-local wall clock is this node's.
pub struct WithClock<F> {
    clock: Rc<Cell<Option<u64>>>,
    inner: Pin<Box<F>>,
}

impl<F: Future> Future for WithClock<F> {
    type Output = F::Output;
    fn poll(mut self: Pin<&mut Self>, cx: &mut Context<'_>) -> Poll<F::Output> {
        let prev = iroh_docs::verif::wall_clock_micros();
        iroh_docs::verif::set_wall_clock_micros(self.clock.get());
        let r = self.inner.as_mut().poll(cx);
        iroh_docs::verif::set_wall_clock_micros(prev);
        r
    }
}

pub struct Node {
    pub handle: SyncHandle,
    pub task: tokio::task::JoinHandle<()>,
    /// this node's wall clock in micros (None = real clock)
    pub clock: Rc<Cell<Option<u64>>>,
}

/// The content status every simulated node reports for a content hash (a fixed function of
/// the content, so that the status a receiver is told can be predicted).
pub fn status_of(hash: &iroh_blobs::Hash) -> iroh_docs::ContentStatus {
    use iroh_docs::ContentStatus::*;
    if *hash == crate::world::content(1).0 {
        Complete
    } else if *hash == crate::world::content(2).0 {
        Incomplete
    } else if *hash == iroh_blobs::Hash::EMPTY {
        Complete
    } else {
        Missing
    }
}

impl Node {
    /// Like `start`, with a content-status callback installed (as the engine does with its blob store).
    pub fn start_with_status(store: Store) -> Node {
        let clock = Rc::new(Cell::new(Some(1_000_000u64)));
        let cb: iroh_docs::ContentStatusCallback = std::sync::Arc::new(|hash: iroh_blobs::Hash| Box::pin(async move { status_of(&hash) }));
        let (handle, fut) = SyncHandle::verif_new_local(store, Some(cb));
        let task = tokio::task::spawn_local(WithClock { clock: clock.clone(), inner: Box::pin(fut) });
        Node { handle, task, clock }
    }

    pub fn start(store: Store) -> Node {
        let clock = Rc::new(Cell::new(Some(1_000_000u64)));
        let (handle, fut) = SyncHandle::verif_new_local(store, None);
        let task = tokio::task::spawn_local(WithClock { clock: clock.clone(), inner: Box::pin(fut) });
        Node { handle, task, clock }
    }

    pub fn set_clock(&self, micros: u64) {
        self.clock.set(Some(micros));
    }

    /// Shut the actor down and get the store back.
    pub async fn stop(self) -> Res<Store> {
        let store = self
            .handle
            .shutdown()
            .await
            .map_err(|e| Violation::new("harness/error", format!("shutdown: {e:#}")))?;
        let _ = self.task.await;
        Ok(store)
    }
}
