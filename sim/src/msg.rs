//! Harness-side serde mirrors of the (private) reconciliation message structs, so that messages
//! can be crafted and inspected through their public postcard encoding.

use iroh_docs::{sync::{ProtocolMessage, RecordIdentifier}, ContentStatus, SignedEntry};
use serde::{Deserialize, Serialize};

#[derive(Serialize, Deserialize, Clone, Debug, PartialEq)]
pub struct MMessage {
    pub parts: Vec<MPart>,
}

#[derive(Serialize, Deserialize, Clone, Debug, PartialEq)]
pub enum MPart {
    RangeFingerprint(MRangeFp),
    RangeItem(MRangeItem),
}

#[derive(Serialize, Deserialize, Clone, Debug, PartialEq)]
pub struct MRangeFp {
    pub range: MRange,
    pub fingerprint: MFp,
}

#[derive(Serialize, Deserialize, Clone, Debug, PartialEq)]
pub struct MRangeItem {
    pub range: MRange,
    pub values: Vec<(SignedEntry, ContentStatus)>,
    pub have_local: bool,
}

#[derive(Serialize, Deserialize, Clone, Debug, PartialEq)]
pub struct MRange {
    pub x: RecordIdentifier,
    pub y: RecordIdentifier,
}

#[derive(Serialize, Deserialize, Clone, Debug, PartialEq)]
pub struct MFp(pub [u8; 32]);

impl MMessage {
    pub fn to_real(&self) -> ProtocolMessage {
        let bytes = postcard::to_stdvec(self).expect("serialize mirror");
        postcard::from_bytes(&bytes).expect("mirror -> real")
    }
    pub fn from_real(m: &ProtocolMessage) -> MMessage {
        let bytes = postcard::to_stdvec(m).expect("serialize real");
        postcard::from_bytes(&bytes).expect("real -> mirror")
    }
    /// A message that just carries entries (peer claims to have them; no reply requested).
    pub fn carrying(entries: Vec<SignedEntry>) -> MMessage {
        let id = entries
            .first()
            .map(|e| e.id().clone())
            .unwrap_or_default();
        MMessage {
            parts: vec![MPart::RangeItem(MRangeItem {
                range: MRange { x: id.clone(), y: id },
                values: entries.into_iter().map(|e| (e, ContentStatus::Missing)).collect(),
                have_local: true,
            })],
        }
    }
    pub fn values(&self) -> Vec<&SignedEntry> {
        self.parts
            .iter()
            .filter_map(|p| match p {
                MPart::RangeItem(i) => Some(i.values.iter().map(|(e, _)| e)),
                _ => None,
            })
            .flatten()
            .collect()
    }
}

pub fn bytes_of(m: &ProtocolMessage) -> Vec<u8> {
    postcard::to_stdvec(m).expect("serialize real")
}

/// Self-check: a real message survives real -> mirror -> real byte-identically.
pub fn mirror_selfcheck(m: &ProtocolMessage) -> Result<(), String> {
    let a = bytes_of(m);
    let mm: MMessage = postcard::from_bytes(&a).map_err(|e| format!("mirror decode: {e}"))?;
    let b = postcard::to_stdvec(&mm).map_err(|e| format!("mirror encode: {e}"))?;
    if a != b {
        return Err("wire mirror drift: bytes differ".into());
    }
    Ok(())
}

// ---------------------------------------------------------------------------------------------
// Mirror of a signed entry, to craft forgeries through the public encoding.

#[derive(Serialize, Deserialize, Clone, Debug, PartialEq)]
pub struct MSigned {
    pub signature: MSig,
    pub entry: MEntry,
}

#[derive(Serialize, Deserialize, Clone, Debug, PartialEq)]
pub struct MSig {
    pub author: ([u8; 32], [u8; 32]),
    pub namespace: ([u8; 32], [u8; 32]),
}

#[derive(Serialize, Deserialize, Clone, Debug, PartialEq)]
pub struct MEntry {
    pub id: bytes::Bytes,
    pub record: MRecord,
}

#[derive(Serialize, Deserialize, Clone, Debug, PartialEq)]
pub struct MRecord {
    pub len: u64,
    pub hash: [u8; 32],
    pub timestamp: u64,
}

impl MSigned {
    pub fn from_real(e: &SignedEntry) -> MSigned {
        let b = postcard::to_stdvec(e).expect("serialize entry");
        postcard::from_bytes(&b).expect("entry -> mirror")
    }
    /// None if the bytes do not even deserialize as a signed entry.
    pub fn to_real(&self) -> Option<SignedEntry> {
        let b = postcard::to_stdvec(self).expect("serialize mirror");
        postcard::from_bytes(&b).ok()
    }
    pub fn selfcheck(e: &SignedEntry) -> Result<(), String> {
        let a = postcard::to_stdvec(e).map_err(|e| e.to_string())?;
        let m: MSigned = postcard::from_bytes(&a).map_err(|e| format!("entry mirror decode: {e}"))?;
        let b = postcard::to_stdvec(&m).map_err(|e| e.to_string())?;
        if a != b {
            return Err("signed-entry mirror drift".into());
        }
        if m.entry.id.len() < 64 || m.entry.record.timestamp != e.timestamp() || m.entry.record.len != e.content_len() {
            return Err("signed-entry mirror field drift".into());
        }
        Ok(())
    }
}
