//! `SimPipe`: an in-memory one-directional byte stream (`AsyncWrite` end, `AsyncRead` end) whose
//! delivery is owned by the driver: bytes written are held until the driver releases them, reads
//! return at most `max_chunk` bytes, and the stream can be cut (EOF) or reset after any byte.

use std::{
    cell::RefCell,
    collections::VecDeque,
    io,
    pin::Pin,
    rc::Rc,
    task::{Context, Poll, Waker},
};

use tokio::io::{AsyncRead, AsyncWrite, ReadBuf};

#[derive(Default, Debug)]
pub struct PipeState {
    /// written by the writer, not yet released to the reader
    held: VecDeque<u8>,
    /// released, readable
    ready: VecDeque<u8>,
    /// the writer closed (shutdown or drop)
    writer_closed: bool,
    /// EOF has been released to the reader
    eof_released: bool,
    /// the stream was reset: reads and writes fail
    reset: bool,
    /// the reader is gone
    reader_closed: bool,
    /// release everything immediately (ungated direction)
    pub ungated: bool,
    pub max_chunk: usize,
    reader_waker: Option<Waker>,
    pub total_written: usize,
    pub total_released: usize,
    pub reads: u64,
}

#[derive(Clone, Debug)]
pub struct PipeCtl(pub Rc<RefCell<PipeState>>);

pub struct PipeWriter(Rc<RefCell<PipeState>>);
pub struct PipeReader(Rc<RefCell<PipeState>>);

pub fn pipe(max_chunk: usize, ungated: bool) -> (PipeWriter, PipeReader, PipeCtl) {
    let st = Rc::new(RefCell::new(PipeState { max_chunk: max_chunk.max(1), ungated, ..Default::default() }));
    (PipeWriter(st.clone()), PipeReader(st.clone()), PipeCtl(st))
}

impl PipeCtl {
    /// Bytes written but not yet released.
    pub fn held(&self) -> usize {
        self.0.borrow().held.len()
    }
    pub fn held_bytes(&self) -> Vec<u8> {
        self.0.borrow().held.iter().copied().collect()
    }
    pub fn writer_closed(&self) -> bool {
        self.0.borrow().writer_closed
    }
    pub fn reader_closed(&self) -> bool {
        self.0.borrow().reader_closed
    }
    /// Release up to `n` held bytes to the reader. Returns how many were released.
    pub fn release(&self, n: usize) -> usize {
        let mut s = self.0.borrow_mut();
        let k = n.min(s.held.len());
        let s = &mut *s;
        s.ready.extend(s.held.drain(..k));
        s.total_released += k;
        if k > 0 {
            if let Some(w) = s.reader_waker.take() {
                w.wake();
            }
        }
        k
    }
    /// Let the reader see end-of-stream after what has been released (discarding held bytes).
    pub fn cut_eof(&self) {
        let mut s = self.0.borrow_mut();
        s.held.clear();
        s.eof_released = true;
        s.writer_closed = true;
        if let Some(w) = s.reader_waker.take() {
            w.wake();
        }
    }
    /// Reset the stream: reads and writes fail from now on.
    pub fn reset(&self) {
        let mut s = self.0.borrow_mut();
        s.held.clear();
        s.reset = true;
        if let Some(w) = s.reader_waker.take() {
            w.wake();
        }
    }
    /// If the writer has closed and nothing is held, pass the EOF on.
    pub fn release_eof_if_done(&self) -> bool {
        let mut s = self.0.borrow_mut();
        if s.writer_closed && s.held.is_empty() && !s.eof_released {
            s.eof_released = true;
            if let Some(w) = s.reader_waker.take() {
                w.wake();
            }
            return true;
        }
        false
    }
    pub fn eof_released(&self) -> bool {
        self.0.borrow().eof_released
    }
    pub fn inject(&self, bytes: &[u8]) {
        let mut s = self.0.borrow_mut();
        s.held.extend(bytes.iter().copied());
        s.total_written += bytes.len();
        if s.ungated {
            drop(s);
            self.release(usize::MAX);
        }
    }
    pub fn close_writer(&self) {
        let mut s = self.0.borrow_mut();
        s.writer_closed = true;
        if s.ungated && s.held.is_empty() {
            s.eof_released = true;
            if let Some(w) = s.reader_waker.take() {
                w.wake();
            }
        }
    }
}

impl AsyncWrite for PipeWriter {
    fn poll_write(self: Pin<&mut Self>, _cx: &mut Context<'_>, buf: &[u8]) -> Poll<io::Result<usize>> {
        let mut s = self.0.borrow_mut();
        if s.reset {
            return Poll::Ready(Err(io::Error::new(io::ErrorKind::ConnectionReset, "simpipe reset")));
        }
        if s.reader_closed || s.eof_released {
            return Poll::Ready(Err(io::Error::new(io::ErrorKind::BrokenPipe, "simpipe closed")));
        }
        s.total_written += buf.len();
        if s.ungated {
            s.ready.extend(buf.iter().copied());
            s.total_released += buf.len();
            if let Some(w) = s.reader_waker.take() {
                w.wake();
            }
        } else {
            s.held.extend(buf.iter().copied());
        }
        Poll::Ready(Ok(buf.len()))
    }
    fn poll_flush(self: Pin<&mut Self>, _cx: &mut Context<'_>) -> Poll<io::Result<()>> {
        Poll::Ready(Ok(()))
    }
    fn poll_shutdown(self: Pin<&mut Self>, _cx: &mut Context<'_>) -> Poll<io::Result<()>> {
        let mut s = self.0.borrow_mut();
        s.writer_closed = true;
        if s.ungated && s.held.is_empty() {
            s.eof_released = true;
            if let Some(w) = s.reader_waker.take() {
                w.wake();
            }
        }
        Poll::Ready(Ok(()))
    }
}

impl Drop for PipeWriter {
    fn drop(&mut self) {
        let mut s = self.0.borrow_mut();
        s.writer_closed = true;
        if s.ungated && s.held.is_empty() {
            s.eof_released = true;
            if let Some(w) = s.reader_waker.take() {
                w.wake();
            }
        }
    }
}

impl AsyncRead for PipeReader {
    fn poll_read(self: Pin<&mut Self>, cx: &mut Context<'_>, buf: &mut ReadBuf<'_>) -> Poll<io::Result<()>> {
        let mut s = self.0.borrow_mut();
        if s.reset {
            return Poll::Ready(Err(io::Error::new(io::ErrorKind::ConnectionReset, "simpipe reset")));
        }
        if !s.ready.is_empty() {
            let n = s.max_chunk.min(s.ready.len()).min(buf.remaining());
            let (a, b) = s.ready.as_slices();
            let na = n.min(a.len());
            buf.put_slice(&a[..na]);
            buf.put_slice(&b[..n - na]);
            s.ready.drain(..n);
            s.reads += 1;
            return Poll::Ready(Ok(()));
        }
        if s.eof_released {
            return Poll::Ready(Ok(()));
        }
        s.reader_waker = Some(cx.waker().clone());
        Poll::Pending
    }
}

impl Drop for PipeReader {
    fn drop(&mut self) {
        self.0.borrow_mut().reader_closed = true;
    }
}

/// Length of the first complete frame (4-byte big-endian length prefix + payload) in `bytes`.
pub fn first_frame_len(bytes: &[u8]) -> Option<usize> {
    if bytes.len() < 4 {
        return None;
    }
    let n = u32::from_be_bytes([bytes[0], bytes[1], bytes[2], bytes[3]]) as usize;
    if bytes.len() >= 4 + n {
        Some(4 + n)
    } else {
        None
    }
}
