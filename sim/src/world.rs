//! Fixed key material, entry specifications and the biased generators shared by scenarios.

use std::{cell::RefCell, collections::HashMap, sync::OnceLock};

use iroh_blobs::Hash;
use iroh_docs::{Author, AuthorId, NamespaceId, NamespaceSecret, Record, SignedEntry};
use serde::{Deserialize, Serialize};

use crate::rng::Rng;

pub mod hexbytes {
    use serde::{Deserialize, Deserializer, Serializer};
    pub fn serialize<S: Serializer>(v: &Vec<u8>, s: S) -> Result<S::Ok, S::Error> {
        s.serialize_str(&hex::encode(v))
    }
    pub fn deserialize<'de, D: Deserializer<'de>>(d: D) -> Result<Vec<u8>, D::Error> {
        let s = String::deserialize(d)?;
        hex::decode(&s).map_err(serde::de::Error::custom)
    }
}

pub const N_DOCS: usize = 4;
pub const N_AUTHORS: usize = 4;
/// all authors, including the ones only "many authors" runs use (indices N_AUTHORS..)
pub const N_AUTHORS_ALL: usize = 28;
pub const N_PEERS: usize = 9;

pub struct World {
    /// Document secrets, sorted by id.
    pub docs: Vec<NamespaceSecret>,
    /// Authors, sorted by id.
    pub authors: Vec<Author>,
    /// Peer ids (valid public keys), sorted.
    pub peers: Vec<[u8; 32]>,
    /// A namespace and author that never belong to any store (for forgeries).
    pub foreign_doc: NamespaceSecret,
    pub foreign_author: Author,
}

pub fn world() -> &'static World {
    static W: OnceLock<World> = OnceLock::new();
    W.get_or_init(|| {
        // Half of the documents and authors have ids ending in 0xFF (found by trying secrets), so
        // that the carry cases of the namespace / author range bounds are exercised with real keys.
        fn grind(base: u8, want_ff: bool, id_of: &dyn Fn(&[u8; 32]) -> [u8; 32]) -> [u8; 32] {
            let mut secret = [base; 32];
            for n in 0u32..1_000_000 {
                secret[..4].copy_from_slice(&n.to_le_bytes());
                let id = id_of(&secret);
                if (id[31] == 0xFF) == want_ff {
                    return secret;
                }
            }
            secret
        }
        let mut docs: Vec<NamespaceSecret> = (0..N_DOCS)
            .map(|i| NamespaceSecret::from_bytes(&grind(0x11 + i as u8, i % 2 == 1, &|s| NamespaceSecret::from_bytes(s).id().to_bytes())))
            .collect();
        docs.sort_by_key(|d| d.id());
        let mut authors: Vec<Author> = (0..N_AUTHORS)
            .map(|i| Author::from_bytes(&grind(0x51 + i as u8, i % 2 == 1, &|s| Author::from_bytes(s).id().to_bytes())))
            .collect();
        authors.sort_by_key(|a| a.id());
        // further authors for runs with many authors: their ids are all greater than the first
        // four (found by trying secrets), so that the first four keep their indices and the whole
        // list stays sorted by id - the reference model orders authors by index
        let top = authors[N_AUTHORS - 1].id();
        let mut more: Vec<Author> = Vec::new();
        let mut secret = [0x60u8; 32];
        let mut n = 0u32;
        while more.len() < N_AUTHORS_ALL - N_AUTHORS && n < 5_000_000 {
            secret[..4].copy_from_slice(&n.to_le_bytes());
            n += 1;
            let a = Author::from_bytes(&secret);
            if a.id() > top {
                more.push(a);
            }
        }
        assert_eq!(more.len(), N_AUTHORS_ALL - N_AUTHORS, "key material: not enough authors above the first four");
        more.sort_by_key(|a| a.id());
        authors.extend(more);
        let mut peers: Vec<[u8; 32]> = (0..N_PEERS)
            .map(|i| *iroh::SecretKey::from_bytes(&[0x91 + i as u8; 32]).public().as_bytes())
            .collect();
        peers.sort();
        World {
            docs,
            authors,
            peers,
            foreign_doc: NamespaceSecret::from_bytes(&[0xE1; 32]),
            foreign_author: Author::from_bytes(&[0xE2; 32]),
        }
    })
}

impl World {
    pub fn doc_id(&self, d: u8) -> NamespaceId {
        self.docs[d as usize].id()
    }
    pub fn author_id(&self, a: u8) -> AuthorId {
        self.authors[a as usize].id()
    }
    pub fn author_index(&self, id: &AuthorId) -> Option<u8> {
        self.authors.iter().position(|a| a.id() == *id).map(|i| i as u8)
    }
}

/// Specification of one entry: which document, author, key, timestamp and content.
/// `c == 0` is a deletion marker, `c >= 1` selects one of a few one-byte-ish blobs.
#[derive(Serialize, Deserialize, Clone, Debug, PartialEq, Eq, PartialOrd, Ord, Hash)]
pub struct Ent {
    pub d: u8,
    pub a: u8,
    #[serde(with = "hexbytes")]
    pub k: Vec<u8>,
    pub ts: u64,
    pub c: u8,
}

pub fn content(c: u8) -> (Hash, u64) {
    if c == 0 {
        (Hash::EMPTY, 0)
    } else {
        let data = vec![c; c as usize];
        (Hash::new(&data), data.len() as u64)
    }
}

impl Ent {
    pub fn record(&self) -> Record {
        let (hash, len) = content(self.c);
        Record::new(hash, len, self.ts)
    }
    pub fn is_marker(&self) -> bool {
        self.c == 0
    }
    /// The value order of the document: (timestamp, content hash).
    pub fn val(&self) -> (u64, [u8; 32]) {
        (self.ts, *content(self.c).0.as_bytes())
    }
    pub fn signed(&self) -> SignedEntry {
        thread_local! {
            static CACHE: RefCell<HashMap<Ent, SignedEntry>> = RefCell::new(HashMap::new());
        }
        CACHE.with(|c| {
            let mut c = c.borrow_mut();
            if let Some(e) = c.get(self) {
                return e.clone();
            }
            let w = world();
            let e = SignedEntry::from_parts(
                &w.docs[self.d as usize],
                &w.authors[self.a as usize],
                &self.k,
                self.record(),
            );
            if c.len() > 200_000 {
                c.clear();
            }
            c.insert(self.clone(), e.clone());
            e
        })
    }
    pub fn short(&self) -> String {
        format!(
            "d{}a{}:{}@{}{}",
            self.d,
            self.a,
            hex::encode(&self.k),
            self.ts,
            if self.c == 0 { "†".to_string() } else { format!("#{}", self.c) }
        )
    }
}

/// Recover the specification of an entry read back from a store (None if it is not expressible,
/// i.e. it was not produced from a spec of this world).
pub fn ent_of(doc: u8, e: &SignedEntry) -> Option<Ent> {
    let w = world();
    let a = w.author_index(&e.author())?;
    let c = if e.content_len() == 0 && e.content_hash() == Hash::EMPTY {
        0
    } else {
        (1..=6u8).find(|c| content(*c) == (e.content_hash(), e.content_len()))?
    };
    let ent = Ent { d: doc, a, k: e.key().to_vec(), ts: e.timestamp(), c };
    // must be byte-identical incl. signatures
    if &ent.signed() == e {
        Some(ent)
    } else {
        None
    }
}

/// The biased key alphabet: prefix relations, the empty key and `..FF` / successor pairs are common.
pub const ALPHABET: [u8; 6] = [0x00, 0x01, b'a', b'b', 0xFE, 0xFF];

#[derive(Clone, Debug)]
pub struct GenCfg {
    pub docs: u8,
    pub authors: u8,
    pub max_key_len: usize,
    pub ts_values: u64,
    pub marker_pct: u64,
    pub contents: u8,
}

impl GenCfg {
    pub fn swarm(rng: &mut Rng) -> Self {
        GenCfg {
            docs: 1,
            authors: rng.range(1, 3) as u8,
            max_key_len: rng.urange(2, 4),
            ts_values: rng.range(3, 8),
            marker_pct: *rng.pick(&[10, 25, 25, 40]),
            contents: rng.range(1, 3) as u8,
        }
    }
}

/// Number of authors of a run: usually 1-3, one run in twelve 6-28.
pub fn gen_author_count(rng: &mut Rng, usual_max: u64) -> u8 {
    if rng.chance(1, 12) {
        rng.range(6, N_AUTHORS_ALL as u64 - 1) as u8
    } else {
        rng.range(1, usual_max) as u8
    }
}

pub fn gen_key(rng: &mut Rng, max_len: usize) -> Vec<u8> {
    let len = rng.urange(0, max_len);
    (0..len).map(|_| *rng.pick(&ALPHABET)).collect()
}

pub fn gen_ent(rng: &mut Rng, g: &GenCfg) -> Ent {
    let c = if rng.chance(g.marker_pct, 100) { 0 } else { rng.range(1, g.contents as u64) as u8 };
    Ent {
        d: rng.below(g.docs as u64) as u8,
        a: rng.below(g.authors as u64) as u8,
        k: gen_key(rng, g.max_key_len),
        ts: rng.range(1, g.ts_values),
        c,
    }
}
