//! Store-level operations shared by scenarios: the three ingress paths of an entry.

use std::{cell::Cell, rc::Rc};

use iroh_docs::{store::Store, ContentStatus, InsertError, SyncOutcome};
use serde::{Deserialize, Serialize};

use crate::{
    msg::MMessage,
    runner::{Res, Violation},
    sut::harness,
    world::{content, world, Ent},
};

#[derive(Serialize, Deserialize, Clone, Copy, Debug, PartialEq, Eq)]
pub enum Path {
    /// `Replica::insert` / `Replica::delete_prefix` with the wall clock set to the entry's timestamp
    Local,
    /// `Replica::insert_remote_entry`
    Remote,
    /// inside a crafted reconciliation message through `Replica::sync_process_message`
    InMessage,
}

#[derive(Debug, Clone, PartialEq, Eq)]
pub enum OfferResult {
    /// inserted, n entries removed
    Inserted(usize),
    /// rejected because a newer entry exists
    Superseded,
    /// the path does not report a per-entry result
    Unknown,
    /// any other error
    Error(String),
}

pub const PEER: [u8; 32] = [9u8; 32];

/// Offer one entry to document `e.d` of `store` through `path`.
pub async fn offer(store: &mut Store, e: &Ent, path: Path) -> Res<OfferResult> {
    let w = world();
    let ns = w.doc_id(e.d);
    let mut r = match store.open_replica(&ns) {
        Ok(r) => r,
        Err(err) => return Ok(OfferResult::Error(format!("open: {err}"))),
    };
    let res = match path {
        Path::Local => {
            iroh_docs::verif::set_wall_clock_micros(Some(e.ts));
            let author = &w.authors[e.a as usize];
            let res = if e.is_marker() {
                r.delete_prefix(&e.k, author).await
            } else {
                let (hash, len) = content(e.c);
                r.insert(&e.k, author, hash, len).await
            };
            iroh_docs::verif::set_wall_clock_micros(None);
            map_insert(res)
        }
        Path::Remote => {
            iroh_docs::verif::set_wall_clock_micros(Some(1_000_000));
            let res = r.insert_remote_entry(e.signed(), PEER, ContentStatus::Missing).await;
            iroh_docs::verif::set_wall_clock_micros(None);
            map_insert(res)
        }
        Path::InMessage => {
            iroh_docs::verif::set_wall_clock_micros(Some(1_000_000));
            let m = MMessage::carrying(vec![e.signed()]).to_real();
            let mut st = SyncOutcome::default();
            let res = r.sync_process_message(m, PEER, &mut st).await;
            iroh_docs::verif::set_wall_clock_micros(None);
            match res {
                Ok(None) => OfferResult::Unknown,
                Ok(Some(_)) => return Err(Violation::new("harness/error", "carrying message produced a reply")),
                Err(err) => OfferResult::Error(format!("{err:#}")),
            }
        }
    };
    drop(r);
    store.close_replica(ns);
    Ok(res)
}

fn map_insert(res: Result<usize, InsertError>) -> OfferResult {
    match res {
        Ok(n) => OfferResult::Inserted(n),
        Err(InsertError::NewerEntryExists) => OfferResult::Superseded,
        Err(e) => OfferResult::Error(format!("{e}: {e:?}")),
    }
}

/// Arm the transaction-ageing hook: the `at`-th internal store call from now (0-based) sees the
/// open write transaction as older than the maximum commit delay. Returns a counter of calls and
/// a flag telling whether it fired.
pub fn arm_age(at: u32) -> (Rc<Cell<u32>>, Rc<Cell<bool>>) {
    let calls = Rc::new(Cell::new(0u32));
    let fired = Rc::new(Cell::new(false));
    let (c2, f2) = (calls.clone(), fired.clone());
    iroh_docs::verif::set_txn_age_cb(Some(Box::new(move || {
        let n = c2.get();
        c2.set(n + 1);
        if n == at {
            f2.set(true);
            true
        } else {
            false
        }
    })));
    (calls, fired)
}

pub fn disarm_age() {
    iroh_docs::verif::set_txn_age_cb(None);
}

pub fn check_harness<T>(r: Result<T, String>) -> Res<T> {
    r.map_err(harness)
}
