//! Reference models, written from the property statements (not from the code).

use std::collections::{BTreeMap, BTreeSet};

use crate::world::Ent;

/// The document model: the set of live entries of one document.
/// Keyed by (author, key); the value is the full entry spec.
#[derive(Clone, Default, Debug, PartialEq, Eq)]
pub struct RefDoc(pub BTreeMap<(u8, Vec<u8>), Ent>);

impl RefDoc {
    /// `p` dominates `e`: same author, `p.key` prefix of (or equal to) `e.key`, and `p` is newer;
    /// on a value tie the shorter key wins.
    pub fn dominates(p: &Ent, e: &Ent) -> bool {
        p.a == e.a
            && e.k.starts_with(&p.k)
            && (p.val() > e.val() || (p.val() == e.val() && p.k != e.k))
    }

    /// Offer one entry. `None` = rejected (superseded), `Some(n)` = inserted, n entries removed.
    pub fn offer(&mut self, e: &Ent) -> Option<usize> {
        for p in self.0.values() {
            if p.a == e.a && e.k.starts_with(&p.k) && p.val() >= e.val() {
                return None;
            }
        }
        let before = self.0.len();
        self.0
            .retain(|_, c| !(c.a == e.a && c.k.starts_with(&e.k) && c.val() <= e.val()));
        let removed = before - self.0.len();
        self.0.insert((e.a, e.k.clone()), e.clone());
        Some(removed)
    }

    /// The join of a set of entries: those not dominated by another entry of the set.
    pub fn join<'a>(items: impl IntoIterator<Item = &'a Ent>) -> RefDoc {
        let set: BTreeSet<&Ent> = items.into_iter().collect();
        let mut d = RefDoc::default();
        for e in set.iter() {
            if !set.iter().any(|p| p != e && Self::dominates(p, e)) {
                d.0.insert((e.a, e.k.clone()), (*e).clone());
            }
        }
        d
    }

    pub fn entries(&self) -> impl Iterator<Item = &Ent> {
        self.0.values()
    }

    pub fn short(&self) -> String {
        let v: Vec<String> = self.0.values().map(|e| e.short()).collect();
        format!("{{{}}}", v.join(", "))
    }

    /// Greatest timestamp per author among held entries.
    pub fn heads(&self) -> BTreeMap<u8, u64> {
        let mut h = BTreeMap::new();
        for e in self.0.values() {
            let t = h.entry(e.a).or_insert(0u64);
            *t = (*t).max(e.ts);
        }
        h
    }
}

#[cfg(test)]
mod tests {
    use super::*;
    use crate::{rng::Rng, world::*};

    #[test]
    fn fold_offer_is_join() {
        let mut rng = Rng::new(7);
        for _ in 0..20_000 {
            let g = GenCfg { docs: 1, authors: 2, max_key_len: 3, ts_values: 5, marker_pct: 25, contents: 3 };
            let n = rng.urange(1, 10);
            let items: Vec<Ent> = (0..n).map(|_| gen_ent(&mut rng, &g)).collect();
            let mut d = RefDoc::default();
            for e in &items {
                d.offer(e);
            }
            assert_eq!(d, RefDoc::join(items.iter()), "{items:?}");
        }
    }
}
