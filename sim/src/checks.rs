//! Registry: which scenarios decide which property, batch sizes per tier, replay dispatch.

use std::{collections::BTreeMap, time::{Duration, Instant}};

use serde_json::Value;

use crate::{
    runner::{finish_check, replay_plan, run_batch, threads, BatchCfg, BatchOut, CheckOut, Cx, Scenario, Tier},
    scen::offer::{Mode as OfferMode, Offer},
    scen::actor::ActorScen,
    scen::coord::Coord,
    scen::coord_real::CoordReal,
    scen::crash::Crash,
    scen::docs::{Docs, Mode as DocsMode},
    scen::events::Events,
    scen::forge::Forge,
    scen::pair::{Mode as PairMode, Pair},
    scen::query::QueryScen,
    scen::session::Session,
    scen::swarm::Swarm,
    scen::wire::{Decoders, PureMode, Wire},
};

fn batch<S: Scenario>(s: &S, tier: Tier, seed: u64, quick_runs: u64, thorough_runs: u64, scale: f64) -> BatchOut {
    let runs = ((tier.pick(quick_runs, thorough_runs) as f64) * scale).max(1.0) as u64;
    let cfg = BatchCfg { seed, tier, runs, threads: threads(), wall_cap: tier.pick(Duration::from_secs(240), Duration::from_secs(2400)) };
    run_batch(s, &cfg)
}

const ASSUME_COMMON: &[&str] = &[
    "seeded search, not proof: a clean batch is evidence with the stated reach",
    "redb recovery, ed25519, postcard and tokio-util framing are trusted",
    "node-internal poll order is the deterministic FIFO of a current-thread tokio runtime with a seeded select!",
];

pub fn run_property(prop: &str, tier: Tier, seed: u64, scale: f64) -> i32 {
    let wall = Instant::now();
    let mut extra: BTreeMap<String, Value> = BTreeMap::new();
    let mut assumptions: Vec<String> = ASSUME_COMMON.iter().map(|s| s.to_string()).collect();
    let mut level = "exploration";
    let mut exhaustive = None;
    let batches: Vec<BatchOut> = match prop {
        "C02" => vec![
            batch(&Offer { mode: OfferMode::State, large: false }, tier, seed, 60_000, 1_500_000, scale),
            batch(&Offer { mode: OfferMode::State, large: true }, tier, seed, 400, 20_000, scale),
        ],
        "C01" => vec![
            batch(&Pair { mode: PairMode::Converge, large: false }, tier, seed, 80_000, 1_500_000, scale),
            batch(&Pair { mode: PairMode::Converge, large: true }, tier, seed, 600, 30_000, scale),
        ],
        "C03" => vec![batch(&Forge, tier, seed, 60_000, 1_500_000, scale)],
        "C04" => vec![
            batch(&Swarm { big_skew: false, events_only: false }, tier, seed, 15_000, 300_000, scale),
            batch(&Swarm { big_skew: true, events_only: false }, tier, seed, 3_000, 60_000, scale),
        ],
        "C05" => vec![
            batch(&QueryScen { large: false }, tier, seed, 150_000, 3_000_000, scale),
            batch(&QueryScen { large: true }, tier, seed, 600, 30_000, scale),
        ],
        "C06" => {
            level = "fault_enumeration";
            exhaustive = Some(false);
            extra.insert("exhaustive_scope".into(), serde_json::json!("per sampled history the crash-point x loss-model (L1,L2) x single age-commit placement space is enumerated completely; the histories themselves (and L3/torn/EIO/double placements) are sampled"));
            vec![
                batch(&Crash { long: false }, tier, seed, 4_000, 12_000, scale),
                batch(&Crash { long: true }, tier, seed, 1_500, 30_000, scale),
                batch(&ActorScen { cap_focus: false, removal_focus: false, crash_focus: true }, tier, seed, 20_000, 500_000, scale),
            ]
        }
        "C07" => vec![
            batch(&Docs { mode: DocsMode::Cap }, tier, seed, 100_000, 2_000_000, scale),
            batch(&ActorScen { cap_focus: true, removal_focus: false, crash_focus: false }, tier, seed, 30_000, 600_000, scale),
        ],
        "C09" => vec![
            batch(&Wire, tier, seed, 600_000, 10_000_000, scale),
            batch(&Decoders { mode: PureMode::Codecs }, tier, seed, 40_000, 1_000_000, scale),
        ],
        "C10" => {
            extra.insert("enumerated_sub_space".into(), serde_json::json!(format!("batch session-enum covers all {} (quick) / {} (thorough) combinations of side x accept outcome x local fault placement x script of up to 2 / 3 frames over 13 representative frames", crate::scen::session::enum_space(2), crate::scen::session::enum_space(3))));
            vec![
                batch(&Session { enumerate: false }, tier, seed, 80_000, 1_500_000, scale),
                batch(&Session { enumerate: true }, tier, seed, crate::scen::session::enum_space(2), crate::scen::session::enum_space(3), 1.0),
            ]
        }
        "C11" => vec![
            batch(&Coord, tier, seed, 20_000, 400_000, scale),
            batch(&CoordReal, tier, seed, 6_000, 150_000, scale),
        ],
        "C12" => vec![
            batch(&Events { only_download: false }, tier, seed, 120_000, 2_500_000, scale),
            batch(&Swarm { big_skew: false, events_only: true }, tier, seed, 5_000, 100_000, scale),
        ],
        "C14" => vec![batch(&ActorScen { cap_focus: false, removal_focus: false, crash_focus: false }, tier, seed, 30_000, 800_000, scale)],
        "C15" => vec![
            batch(&Docs { mode: DocsMode::Policy }, tier, seed, 40_000, 1_000_000, scale),
            batch(&Decoders { mode: PureMode::Filters }, tier, seed, 20_000, 500_000, scale),
            batch(&Events { only_download: true }, tier, seed, 30_000, 600_000, scale),
        ],
        "C16" => vec![
            batch(&Docs { mode: DocsMode::Remove }, tier, seed, 70_000, 1_500_000, scale),
            batch(&ActorScen { cap_focus: false, removal_focus: true, crash_focus: false }, tier, seed, 20_000, 400_000, scale),
        ],
        "C17" => vec![
            batch(&Docs { mode: DocsMode::Peers }, tier, seed, 40_000, 1_000_000, scale),
            batch(&Docs { mode: DocsMode::PeersClockFault }, tier, seed, 10_000, 200_000, scale),
        ],
        "C18" => vec![batch(&Docs { mode: DocsMode::Migrate }, tier, seed, 30_000, 800_000, scale)],
        "C08" => vec![batch(&Pair { mode: PairMode::Differential, large: false }, tier, seed, 50_000, 800_000, scale)],
        "C13" => vec![
            batch(&Offer { mode: OfferMode::Heads, large: false }, tier, seed, 60_000, 1_500_000, scale),
            batch(&Decoders { mode: PureMode::Heads }, tier, seed, 30_000, 600_000, scale),
        ],
        _ => {
            eprintln!("harness error: unknown property {prop}");
            return 2;
        }
    };
    let _ = (&mut extra, &mut assumptions);
    finish_check(CheckOut { property: prop.to_string(), level, batches, extra, assumptions, exhaustive, distinct_is_states: prop == "C06" }, tier, seed, wall)
}

fn replay_dispatch(prop: &str, scenario: &str, plan: Value) -> Result<(Option<crate::runner::Violation>, u64, Vec<String>), String> {
    match (prop, scenario) {
        (_, "offer") => replay_plan(&Offer { mode: OfferMode::State, large: false }, plan),
        (_, "offer-large") => replay_plan(&Offer { mode: OfferMode::State, large: true }, plan),
        (_, "offer-heads") => replay_plan(&Offer { mode: OfferMode::Heads, large: false }, plan),
        (_, "events") => replay_plan(&Events { only_download: false }, plan),
        (_, "events-download-flag") => replay_plan(&Events { only_download: true }, plan),
        (_, "forge") => replay_plan(&Forge, plan),
        (_, "wire") => replay_plan(&Wire, plan),
        (_, "decoders-pure") => replay_plan(&Decoders { mode: PureMode::Codecs }, plan),
        (_, "heads-encoding-pure") => replay_plan(&Decoders { mode: PureMode::Heads }, plan),
        (_, "filters-pure") => replay_plan(&Decoders { mode: PureMode::Filters }, plan),
        (_, "swarm") => replay_plan(&Swarm { big_skew: false, events_only: false }, plan),
        (_, "swarm-events") => replay_plan(&Swarm { big_skew: false, events_only: true }, plan),
        (_, "swarm-bigskew") => replay_plan(&Swarm { big_skew: true, events_only: false }, plan),
        (_, "session") => replay_plan(&Session { enumerate: false }, plan),
        (_, "session-enum") => replay_plan(&Session { enumerate: true }, plan),
        (_, "query") => replay_plan(&QueryScen { large: false }, plan),
        (_, "query-large") => replay_plan(&QueryScen { large: true }, plan),
        (_, "actor") => replay_plan(&ActorScen { cap_focus: false, removal_focus: false, crash_focus: false }, plan),
        (_, "actor-crash") => replay_plan(&ActorScen { cap_focus: false, removal_focus: false, crash_focus: true }, plan),
        (_, "actor-removal") => replay_plan(&ActorScen { cap_focus: false, removal_focus: true, crash_focus: false }, plan),
        (_, "actor-capability") => replay_plan(&ActorScen { cap_focus: true, removal_focus: false, crash_focus: false }, plan),
        (_, "coord") => replay_plan(&Coord, plan),
        (_, "coord-real") => replay_plan(&CoordReal, plan),
        (_, "crash") => replay_plan(&Crash { long: false }, plan),
        (_, "crash-long") => replay_plan(&Crash { long: true }, plan),
        (_, "docs-cap") => replay_plan(&Docs { mode: DocsMode::Cap }, plan),
        (_, "docs-policy") => replay_plan(&Docs { mode: DocsMode::Policy }, plan),
        (_, "docs-remove") => replay_plan(&Docs { mode: DocsMode::Remove }, plan),
        (_, "docs-peers") => replay_plan(&Docs { mode: DocsMode::Peers }, plan),
        (_, "docs-peers-clockfault") => replay_plan(&Docs { mode: DocsMode::PeersClockFault }, plan),
        (_, "docs-migrate") => replay_plan(&Docs { mode: DocsMode::Migrate }, plan),
        (_, "pair") => replay_plan(&Pair { mode: PairMode::Converge, large: false }, plan),
        (_, "pair-large") => replay_plan(&Pair { mode: PairMode::Converge, large: true }, plan),
        (_, "pair-diff") => replay_plan(&Pair { mode: PairMode::Differential, large: false }, plan),
        _ => Err(format!("unknown scenario {scenario} for {prop}")),
    }
}

pub fn replay(file: &str) -> i32 {
    let txt = match std::fs::read_to_string(file) {
        Ok(t) => t,
        Err(e) => {
            eprintln!("harness error: cannot read {file}: {e}");
            return 2;
        }
    };
    let v: Value = match serde_json::from_str(&txt) {
        Ok(v) => v,
        Err(e) => {
            eprintln!("harness error: bad replay file: {e}");
            return 2;
        }
    };
    let prop = v["property"].as_str().unwrap_or("").to_string();
    let scenario = v["scenario"].as_str().unwrap_or("").to_string();
    let expect_class = v["expect"]["class"].as_str().unwrap_or("").to_string();
    let expect_hash = v["expect"]["log_hash"].as_str().unwrap_or("").to_string();
    match replay_dispatch(&prop, &scenario, v["plan"].clone()) {
        Err(e) => {
            eprintln!("harness error: {e}");
            2
        }
        Ok((viol, hash, log)) => {
            for l in &log {
                println!("  {l}");
            }
            let hash = format!("{hash:016x}");
            match viol {
                Some(v) => {
                    println!("replay: violation class={} detail={}", v.class, v.detail);
                    println!("replay: log_hash={hash} expected={expect_hash} class_expected={expect_class}");
                    if v.class == expect_class && hash == expect_hash {
                        println!("replay: reproduced exactly");
                    } else {
                        println!("replay: DIFFERS from the recorded run");
                    }
                    println!("VIOLATION property={prop} replay={file}");
                    1
                }
                None => {
                    println!("replay: no violation (log_hash={hash}, recorded {expect_hash} class {expect_class})");
                    0
                }
            }
        }
    }
}

/// Determinism self-test: every scenario, `seeds` runs, executed twice; event-log hashes must agree.
pub fn determinism(prop: Option<&str>, seeds: u64) -> i32 {
    fn twice<S: Scenario>(s: &S, seeds: u64, bad: &mut Vec<String>) {
        let name = s.name();
        let t = threads();
        let print_only = std::env::var_os("VERIF_PRINT_HASHES").is_some();
        let results: Vec<Vec<(u64, u64, u64)>> = [1usize, t].iter().map(|threads| {
            let out = std::sync::Mutex::new(Vec::new());
            let next = std::sync::atomic::AtomicU64::new(0);
            std::thread::scope(|sc| {
                for _ in 0..*threads {
                    sc.spawn(|| loop {
                        let run = next.fetch_add(1, std::sync::atomic::Ordering::Relaxed);
                        if run >= seeds { break; }
                        let mut rng = crate::rng::Rng::for_run(12345, &name, run);
                        let plan = s.gen(&mut rng, Tier::Quick);
                        let mut cx = Cx::new(false);
                        let r = crate::runner::exec_guarded(s, &plan, &mut cx);
                        let v = match r { crate::runner::RunResult::Ok => 0, crate::runner::RunResult::Violation(v) => crate::rng::fnv(v.class.as_bytes()) | 1, crate::runner::RunResult::Harness(_) => 2 };
                        out.lock().unwrap().push((run, cx.log_hash, v));
                    });
                }
            });
            let mut v = out.into_inner().unwrap();
            v.sort();
            v
        }).collect();
        if print_only {
            // one line per run, for comparison between separate processes
            for (run, h, v) in &results[1] {
                println!("HASH {name} {run} {h:016x} {v:x}");
            }
        }
        if results[0] != results[1] {
            let n = results[0].iter().zip(results[1].iter()).filter(|(a, b)| a != b).count();
            bad.push(format!("{name}: {n} of {seeds} runs differ between two executions"));
        } else {
            if !print_only {
                println!("determinism {name}: {seeds} runs x 2 executions (1 and {t} threads) identical");
            }
        }
    }
    let mut bad = Vec::new();
    let all = prop.is_none();
    let p = prop.unwrap_or("");
    if all || p == "C02" { twice(&Offer { mode: OfferMode::State, large: false }, seeds, &mut bad); twice(&Offer { mode: OfferMode::State, large: true }, seeds.min(20), &mut bad); }
    if all || p == "C13" { twice(&Offer { mode: OfferMode::Heads, large: false }, seeds, &mut bad); }
    if all || p == "C03" { twice(&Forge, seeds, &mut bad); }
    if all || p == "C04" { twice(&Swarm { big_skew: false, events_only: false }, seeds, &mut bad); twice(&Swarm { big_skew: true, events_only: false }, seeds.min(50), &mut bad); }
    if all || p == "C05" { twice(&QueryScen { large: false }, seeds, &mut bad); twice(&QueryScen { large: true }, seeds.min(20), &mut bad); }
    if all || p == "C06" { twice(&Crash { long: false }, seeds.min(60), &mut bad); twice(&Crash { long: true }, seeds.min(40), &mut bad); }
    if all || p == "C07" { twice(&Docs { mode: DocsMode::Cap }, seeds, &mut bad); }
    if all || p == "C09" { twice(&Wire, seeds, &mut bad); twice(&Decoders { mode: PureMode::Codecs }, seeds, &mut bad); }
    if all || p == "C10" { twice(&Session { enumerate: false }, seeds, &mut bad); twice(&Session { enumerate: true }, seeds, &mut bad); }
    if all || p == "C11" { twice(&Coord, seeds.min(100), &mut bad); twice(&CoordReal, seeds.min(100), &mut bad); }
    if all || p == "C12" { twice(&Events { only_download: false }, seeds, &mut bad); }
    if all || p == "C14" { twice(&ActorScen { cap_focus: false, removal_focus: false, crash_focus: false }, seeds, &mut bad); }
    if all || p == "C07" { twice(&ActorScen { cap_focus: true, removal_focus: false, crash_focus: false }, seeds, &mut bad); }
    if all || p == "C16" { twice(&ActorScen { cap_focus: false, removal_focus: true, crash_focus: false }, seeds, &mut bad); }
    if all || p == "C06" { twice(&ActorScen { cap_focus: false, removal_focus: false, crash_focus: true }, seeds, &mut bad); }
    if all || p == "C15" { twice(&Docs { mode: DocsMode::Policy }, seeds, &mut bad); }
    if all || p == "C16" { twice(&Docs { mode: DocsMode::Remove }, seeds, &mut bad); }
    if all || p == "C17" { twice(&Docs { mode: DocsMode::Peers }, seeds, &mut bad); twice(&Docs { mode: DocsMode::PeersClockFault }, seeds, &mut bad); }
    if all || p == "C18" { twice(&Docs { mode: DocsMode::Migrate }, seeds, &mut bad); }
    if all || p == "C01" { twice(&Pair { mode: PairMode::Converge, large: false }, seeds, &mut bad); }
    if all || p == "C01" { twice(&Pair { mode: PairMode::Converge, large: true }, seeds / 10, &mut bad); }
    if all || p == "C08" { twice(&Pair { mode: PairMode::Differential, large: false }, seeds, &mut bad); }
    if bad.is_empty() { 0 } else { for b in bad { eprintln!("NONDETERMINISM: {b}"); } 2 }
}
