#!/usr/bin/env python3
"""tools/keep_seeded.py <ID> <seeded-name> <breaks> <caught-by,comma> -- copies a confirmed seeded change into /verif/seeded/<name>/"""
import json, os, shutil, sys, re
sid, name, breaks, caught = sys.argv[1:5]
src = f"/tmp/mut/{sid}/out"; dst = f"/verif/seeded/{name}"
os.makedirs(dst, exist_ok=True)
for f in ("patch.diff", "mut_demo.rs", "notes.md"):
    shutil.copy(f"{src}/{f}", f"{dst}/{f}")
log = open(f"{src}/confirm.log").read()
verdict = [l for l in log.splitlines() if "CONFIRMED" in l or "REJECT" in l][-1]
notes = open(f"{src}/notes.md").read()
meta = {
    "breaks_property": breaks,
    "source": "independent sub-agent given only the property text and a scratch worktree of /repo (nothing from /verif)",
    "needs_to_manifest": " ".join(notes.split("\n\n")[2:4])[:1200] if len(notes.split("\n\n")) > 3 else notes[:1200],
    "confirmation": {
        "how": "tools/confirm_seeded.sh in the scratch worktree: full existing suite with the change (nextest, 92 tests, failed tests re-run alone once), then the same with the change reverted",
        "result": verdict,
    },
    "checks_run_against_it": "tools/eval_seeded.py: patch applied to /repo's working tree, ./check <ID> quick, working tree restored",
    "caught_by": caught.split(","),
}
json.dump(meta, open(f"{dst}/meta.json", "w"), indent=1)
print("kept", dst, verdict)
