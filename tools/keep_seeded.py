#!/usr/bin/env python3
"""tools/keep_seeded.py <ID> <seeded-name> <breaks> [note] -- copies a confirmed and evaluated seeded change from
/tmp/mut/<ID>/out into /verif/seeded/<name>/ (patch.diff, mut_demo.rs, notes.md, meta.json). The list of checks that
caught it is taken from eval.json (written by tools/eval_lane.py); `note` is appended to the first entry (used for
"missed by the first version ..." remarks)."""
import json, os, shutil, sys
sid, name, breaks = sys.argv[1:4]
note = sys.argv[4] if len(sys.argv) > 4 else ""
src = f"/tmp/mut/{sid}/out"; dst = f"/verif/seeded/{name}"
os.makedirs(dst, exist_ok=True)
for f in ("patch.diff", "mut_demo.rs", "notes.md"):
    shutil.copy(f"{src}/{f}", f"{dst}/{f}")
log = open(f"{src}/confirm.log").read()
verdict = [l for l in log.splitlines() if "CONFIRMED" in l or "REJECT" in l][-1]
assert "CONFIRMED" in verdict, verdict
notes = open(f"{src}/notes.md").read()
ev = json.load(open(f"{src}/eval.json"))
caught, missed = [], []
for p, r in ev.items():
    if not isinstance(r, dict) or "exit" not in r:
        continue
    if r["exit"] == 1:
        cl = sorted(set(c.replace("class=", "") for c in r["classes"]))
        caught.append(f"{p} ({', '.join(cl[:4])})")
    else:
        missed.append(p)
# the property it was written for first
caught.sort(key=lambda c: (not c.startswith(breaks), c))
if note and caught:
    caught[0] += " — " + note
sec = notes.split("\n## ")
need = next((x for x in sec if x.lower().startswith("what it needs")), notes)[:1400]
meta = {
    "breaks_property": breaks,
    "source": "independent sub-agent given only the property text, the titles of earlier proposals and a scratch worktree of /repo (nothing else from /verif)",
    "needs_to_manifest": " ".join(need.split("\n", 1)[-1].split()),
    "confirmation": {
        "how": "tools/confirm_seeded.sh in the scratch worktree: full existing suite with the change (nextest, 92 tests, failed tests re-run alone up to three times), then the same with the change reverted",
        "result": verdict,
    },
    "checks_run_against_it": f"tools/eval_lane.py: patch applied to a scratch worktree of /repo at {ev.get('repo_commit', '?')[:7]}, ./check <ID> quick of /verif at {ev.get('verif_commit', '?')[:7]} built against it (VERIF_REPO), worktree restored",
    "caught_by": caught,
    "not_flagged_by": missed,
}
json.dump(meta, open(f"{dst}/meta.json", "w"), indent=1)
print("kept", dst, "| caught:", caught, "| not flagged:", missed)
