#!/usr/bin/env python3
"""tools/wave.py ID:PROP[,PROP..] ...   confirm each seeded change in its scratch worktree (three at a time, one per
shared build directory) and, once confirmed, run the quick checks against it in the evaluation lane (one at a time).
Progress goes to /tmp/mut/wave.log; per change: /tmp/mut/<ID>/out/confirm.log and eval.json."""
import subprocess, sys, threading, queue, time

jobs = [a.split(":") for a in sys.argv[1:]]
log = open("/tmp/mut/wave.log", "a")
def say(s):
    log.write(time.strftime("%H:%M:%S ") + s + "\n"); log.flush()

evalq = queue.Queue()
confq = queue.Queue()
for j in jobs: confq.put(j)

def confirmer(letter):
    while True:
        try: sid, props = confq.get_nowait()
        except queue.Empty: return
        r = subprocess.run(f"CARGO_TARGET_DIR=/tmp/mut/target-{letter} /verif/tools/confirm_seeded.sh {sid}", shell=True, capture_output=True, text=True)
        line = (r.stdout.strip().splitlines() or ["?"])[-1]
        say("confirm " + line)
        if "CONFIRMED" in line: evalq.put((sid, props))

def evaluator():
    while True:
        item = evalq.get()
        if item is None: return
        sid, props = item
        r = subprocess.run(f"python3 /verif/tools/eval_lane.py {sid} /tmp/mut/{sid}/out {props.replace(',', ' ')}", shell=True, capture_output=True, text=True)
        for l in r.stdout.splitlines():
            if l.startswith(sid + ":") or "does not" in l: say("eval " + l)

ts = [threading.Thread(target=confirmer, args=(l,)) for l in "abc"]
ev = threading.Thread(target=evaluator)
for t in ts: t.start()
ev.start()
for t in ts: t.join()
evalq.put(None)
ev.join()
say("wave done")
