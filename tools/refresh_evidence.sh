#!/bin/bash
# tools/refresh_evidence.sh [ID...]  run the quick checks on the unchanged tree and rewrite the evidence files
cd /verif || exit 2
if [ -n "$(git -C /repo status --porcelain)" ]; then echo "refusing: /repo is not clean"; exit 2; fi
ids=("$@"); [ ${#ids[@]} -eq 0 ] && ids=(C01 C02 C03 C04 C05 C06 C07 C08 C09 C10 C11 C12 C13 C14 C15 C16 C17 C18)
rc=0
for p in "${ids[@]}"; do
  out=$(./check $p quick 2>&1); e=$?
  echo "$p exit=$e $(echo "$out" | tail -1)"
  [ $e -ne 0 ] && { rc=1; echo "$out" | grep -E "VIOLATION|violation class|harness" | head -5; }
done
exit $rc
