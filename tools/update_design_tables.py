#!/usr/bin/env python3
"""Regenerates the table of independently seeded changes in DESIGN.md from /verif/seeded/*/meta.json."""
import json, glob, os, re
rows = ["| seeded change | breaks | caught by (violation classes) |", "|---|---|---|"]
for d in sorted(glob.glob("/verif/seeded/*/meta.json")):
    name = os.path.basename(os.path.dirname(d))
    m = json.load(open(d))
    caught = "; ".join(m["caught_by"])
    rows.append(f"| `{name}` | {m['breaks_property']} | {caught} |")
table = "\n".join(rows)
p = "/verif/DESIGN.md"; s = open(p).read()
b, e = "<!-- seeded-table:begin -->", "<!-- seeded-table:end -->"
if "SEEDED_TABLE" in s:
    s = s.replace("SEEDED_TABLE", f"{b}\n{table}\n{e}")
else:
    s = s[:s.index(b)] + f"{b}\n{table}\n" + s[s.index(e):]
open(p, "w").write(s)
print(len(rows) - 2, "seeded changes listed")
