#!/usr/bin/env python3
"""tools/eval_lane.py <ID> <dir-with-patch.diff> <PROP> [PROP...]
Like eval_seeded.py, but in an evaluation lane so that /repo and /verif stay free for editing:
/tmp/lane/repo is a scratch git worktree of /repo (at /repo's HEAD), /tmp/lane/verif a scratch worktree of
/verif; the lane is first moved to the current HEAD commits of both, the change is applied to the lane's
repository, the quick checks of the lane's /verif run against it (VERIF_REPO), and the change is undone.
Writes <dir>/eval.json."""
import json, subprocess, sys, time, os

LR, LV = "/tmp/lane/repo", "/tmp/lane/verif"

def sh(cmd, timeout=None):
    try:
        return subprocess.run(cmd, shell=True, capture_output=True, text=True, timeout=timeout)
    except subprocess.TimeoutExpired:
        subprocess.run("pkill -9 -f 'sim-alt/target/release/sim run'", shell=True)
        class R: pass
        r = R(); r.returncode = 124; r.stdout = ""; r.stderr = "timeout"; return r

def main():
    sid, d, props = sys.argv[1], sys.argv[2], sys.argv[3:]
    rh = sh("git -C /repo rev-parse HEAD").stdout.strip()
    vh = sh("git -C /verif rev-parse HEAD").stdout.strip()
    sh(f"git -C {LR} checkout -q -- . ; git -C {LR} clean -fdq src tests; git -C {LR} checkout -q --detach {rh}")
    sh(f"git -C {LV} checkout -q -- . ; git -C {LV} checkout -q --detach {vh}")
    a = sh(f"git -C {LR} apply {d}/patch.diff")
    if a.returncode != 0:
        print("patch does not apply:", a.stderr); sys.exit(2)
    res = {"verif_commit": vh, "repo_commit": rh}
    env = f"VERIF_REPO={LR} VERIF_SEED=0"
    try:
        b = sh(f"cd {LV} && {env} ./check build")
        if b.returncode != 0:
            print("does not build with hooks on:", b.stderr[-1500:]); res["build"] = "failed"
        else:
            for p in props:
                t = time.time()
                r = sh(f"cd {LV} && {env} ./check {p} quick", timeout=1200)
                classes = [l.split()[1] for l in r.stdout.splitlines() if l.startswith("violation class=")]
                res[p] = {"exit": r.returncode, "classes": classes, "wall_s": round(time.time() - t, 1)}
                if r.returncode == 2:
                    res[p]["stderr"] = (r.stdout[-600:] + r.stderr[-600:])
                print(f"{sid}: {p} exit={r.returncode} {classes[:4]} ({time.time()-t:.0f}s)", flush=True)
    finally:
        sh(f"git -C {LR} checkout -q -- . ; git -C {LR} clean -fdq src tests")
        sh(f"rm -rf {LV}/replays")
    json.dump(res, open(f"{d}/eval.json", "w"), indent=1)
    print(json.dumps({sid: res}))

main()
