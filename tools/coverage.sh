#!/bin/bash
# tools/coverage.sh  diagnostic, not a check: builds the simulator with source-based coverage (nightly toolchain) in
# /tmp/cov, runs every property's quick tier at a reduced scale, and prints the lines of /repo/src that no run executed.
set -u
mkdir -p /tmp/cov && rsync -a --exclude target /verif/sim/ /tmp/cov/sim/ && cd /tmp/cov/sim || exit 2
export CARGO_NET_OFFLINE=true VERIF_ROOT=/tmp/cov/root LLVM_PROFILE_FILE="/tmp/cov/prof/sim-%p-%m.profraw"
mkdir -p /tmp/cov/root/evidence /tmp/cov/prof
cp /verif/known_findings.json /verif/properties.jsonl /tmp/cov/root/ 2>/dev/null
RUSTFLAGS="--cfg tokio_unstable -C instrument-coverage" cargo +nightly build --release --offline 2>&1 | tail -3
BIN=/tmp/cov/sim/target/release/sim
rm -f /tmp/cov/prof/*.profraw
export VERIF_THREADS=${VERIF_THREADS:-4}
for p in C01 C02 C03 C04 C05 C06 C07 C08 C09 C10 C11 C12 C13 C14 C15 C16 C17 C18; do
  $BIN run --property $p --tier quick --seed 0 --scale ${SCALE:-0.004} | tail -1
done
T=$(dirname $(rustup +nightly which rustc))/../lib/rustlib/x86_64-unknown-linux-gnu/bin
$T/llvm-profdata merge -sparse /tmp/cov/prof/*.profraw -o /tmp/cov/sim.profdata
$T/llvm-cov report $BIN -instr-profile=/tmp/cov/sim.profdata $(find /repo/src -name '*.rs') 2>/dev/null | grep -E "^/repo/src|^TOTAL|^Filename" > /tmp/cov/report.txt
$T/llvm-cov show $BIN -instr-profile=/tmp/cov/sim.profdata --show-line-counts-or-regions=false --format=text $(find /repo/src -name '*.rs') > /tmp/cov/show.txt 2>/dev/null
cat /tmp/cov/report.txt
