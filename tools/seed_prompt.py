#!/usr/bin/env python3
"""tools/seed_prompt.py <PROP> <ID> <target-dir-letter> [extra hint file] -- prints the brief handed to an independent
sub-agent that is to propose a property-breaking change. The brief contains the property text and the
titles of changes already proposed for it (so that it proposes something else) and nothing else from /verif."""
import json, os, sys
prop, sid, tl = sys.argv[1:4]
focus = open(sys.argv[4]).read().strip() if len(sys.argv) > 4 else ""
p = next(json.loads(l) for l in open("/verif/properties.jsonl") if json.loads(l)["id"] == prop)
done = sorted(d[4:].replace("-", " ") for d in os.listdir("/verif/seeded") if d.startswith(prop + "-"))
wt = f"/tmp/mut/{sid}"
print(f"""You are helping to evaluate a verification effort for the Rust crate n0-computer/iroh-docs (signed multi-author
key-value replicas, range-based set reconciliation, redb store, gossip-driven live sync engine). You work ONLY inside
your own scratch git worktree of the repository: {wt} (do not touch /repo, /verif or any other directory; do not read
anything under /verif). There is no network: always pass --offline to cargo, and use the shared build directory by
setting CARGO_TARGET_DIR=/tmp/mut/target-{tl} on every cargo command (other people build there too, so a build may wait
for a lock; that is fine).

The property under study:

  id: {p['id']} -- {p['title']}
  statement: {p['statement']}
  quantified over: {p['quantifier']['text']}
  why the existing tests cannot settle it: {p['why_tests_cant']}
  where it lives: files {', '.join(p['anchors']['files'])}; mechanisms: {'; '.join(m['name'] + ' (' + m['where'] + ')' for m in p['anchors']['mechanism'])}
  observed at: {'; '.join(p['anchors']['observe_at'])}

YOUR TASK: produce ONE realistic change to the crate's source (the kind of regression a plausible refactoring,
optimisation or "simplification" could introduce) that BREAKS this property while the crate still compiles and the
existing test suite still passes (run: CARGO_TARGET_DIR=/tmp/mut/target-{tl} cargo nextest run --workspace --no-fail-fast
--test-threads 8 --offline ; 92 tests, all must pass with your change, apart from your own demonstration).

The change must need something SPECIFIC to manifest -- a particular interleaving or schedule, a crash or fault at a
particular point, a multi-step sequence of operations, an unusual input (boundary value, particular byte pattern,
particular size), or two cooperating sites that each look fine alone. It must NOT be something ordinary use would
expose at once (e.g. not "every insert fails"). Prefer a change in code paths that are rarely combined. It may touch
any file of the crate that takes part in the behaviour the property describes (also helper modules, the actor, the
engine, the store, migrations, ...), not only the most obvious function.

{focus}

These changes have already been proposed for this property by others -- propose something DIFFERENT in mechanism and
in what is needed to trigger it (not a variation of one of them):
{chr(10).join('  - ' + d for d in done) if done else '  (none yet)'}

Also write a DEMONSTRATION: a test (tests/mut_demo.rs using the public API, or if it needs crate-private access a new
file src/<...>/mut_demo.rs included by a `#[cfg(test)] mod mut_demo;` line) whose test function names all contain the
word `demo`, which FAILS with your change and PASSES without it. Verify both directions yourself.

Deliver, in {wt}/out/ :
  - patch.diff : `git diff` of ONLY the behaviour change (it must apply to a clean checkout with `git apply`, and must NOT
    contain the demonstration test nor the `mod mut_demo;` line). Leave the change applied in the worktree and leave the
    demonstration test files in place in the worktree (uncommitted).
  - mut_demo.rs : a copy of the demonstration test file.
  - notes.md : sections "The change", "What it needs to manifest" (precise trigger), "Why the existing suite does not
    notice", "Demonstration" (what you ran, results with and without the change, result of the full existing suite).
Do not commit anything. Do not delete the worktree. Do NOT use `git stash` (the stash is shared with other people's worktrees): to test without your change use `git apply -R out/patch.diff` and then `git apply out/patch.diff`. When done, reply with a five-line summary: what the change is, the
trigger, demo result with/without, full-suite result with the change.""")
