#!/usr/bin/env python3
"""tools/eval_seeded.py <ID> <dir-with-patch.diff> <PROP> [PROP...]
Applies a seeded change to /repo's working tree, runs the quick checks of the given properties,
prints which caught it, and restores /repo. Never commits. /repo must be clean."""
import json, subprocess, sys, time

def sh(cmd, timeout=None):
    try:
        return subprocess.run(cmd, shell=True, capture_output=True, text=True, timeout=timeout)
    except subprocess.TimeoutExpired as e:
        subprocess.run("pkill -9 -f 'target/release/sim run'", shell=True)
        class R: pass
        r = R(); r.returncode = 124; r.stdout = ""; r.stderr = "timeout"; return r

def main():
    sid, d, props = sys.argv[1], sys.argv[2], sys.argv[3:]
    if sh("git -C /repo status --porcelain").stdout.strip():
        print("refusing: /repo is not clean"); sys.exit(2)
    a = sh(f"git -C /repo apply {d}/patch.diff")
    if a.returncode != 0:
        print("patch does not apply:", a.stderr); sys.exit(2)
    res = {}
    try:
        b = sh("cd /verif && ./check build")
        if b.returncode != 0:
            print("does not build with hooks on:", b.stderr[-400:]); res["build"] = "failed"
        else:
            for p in props:
                t = time.time()
                r = sh(f"cd /verif && VERIF_SEED=0 ./check {p} quick", timeout=900)
                classes = [l.split()[1] for l in r.stdout.splitlines() if l.startswith("violation class=")]
                res[p] = {"exit": r.returncode, "classes": classes, "wall_s": round(time.time() - t, 1)}
                print(f"{sid}: {p} exit={r.returncode} {classes[:4]} ({time.time()-t:.0f}s)", flush=True)
    finally:
        sh("git -C /repo checkout -- . && git -C /repo clean -fdq src tests")
    print(json.dumps({sid: res}))

main()
