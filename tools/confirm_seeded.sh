#!/bin/bash
# tools/confirm_seeded.sh <ID>   confirm a seeded change in its scratch worktree /tmp/mut/<ID>
# (change applied, demonstration test present wherever the author put it):
#   with the change: the existing suite passes and only demonstration tests fail (at least one);
#   without the change: everything passes.
# Writes /tmp/mut/<ID>/out/confirm.log and prints a one-line verdict.
set -u
id="$1"; wt="/tmp/mut/$id"; out="$wt/out"
export CARGO_NET_OFFLINE=true CARGO_TARGET_DIR=${CARGO_TARGET_DIR:-/tmp/mut/target}
cd "$wt" || exit 2
log="$out/confirm.log"; : >"$log"
git apply -R --check "$out/patch.diff" 2>/dev/null || git apply "$out/patch.diff" 2>>"$log" || { echo "$id: patch does not apply"; exit 2; }
run_suite() { # $1 = label ; prints failing test names (after one solo retry) on stdout
  echo "== suite $1" >>"$log"
  cargo nextest run --workspace --no-fail-fast --test-threads 8 --offline >"$out/.run.log" 2>&1
  cat "$out/.run.log" >>"$log"
  local failed still=""
  failed=$(grep -E "^\s+(FAIL|TIMEOUT|SIGABRT|SIGSEGV)" "$out/.run.log" | awk '{print $(NF-1)"::"$NF}' | sort -u)
  for t in $failed; do
    ok=0
    for attempt in 1 2 3; do
      if cargo nextest run --workspace --offline -E "test(=${t##*::})" >>"$log" 2>&1; then ok=1; break; fi
    done
    [ $ok -eq 1 ] || still="$still $t"
  done
  if ! grep -q "tests run:" "$out/.run.log"; then still="$still BUILD-FAILED"; fi
  echo $still
}
with=$(run_suite "WITH change")
git apply -R "$out/patch.diff"
without=$(run_suite "WITHOUT change")
git apply "$out/patch.diff"
rm -f "$out/.run.log"
demo_fail=0; other_fail=0
for t in $with; do case "$t" in *demo*) demo_fail=1;; *) other_fail=1;; esac; done
verdict="REJECT"
[ $demo_fail -eq 1 ] && [ $other_fail -eq 0 ] && [ -z "$without" ] && verdict="CONFIRMED"
echo "$id: $verdict (failing with change: [$with ]; failing without change: [$without ])" | tee -a "$log"
