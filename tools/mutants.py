#!/usr/bin/env python3
"""Sensitivity catalogue: one-line, compiling changes to the anchored code (DESIGN.md appendix C).

usage: tools/mutants.py [ID-prefix ...]   applies each mutant to /repo's working tree, runs the
listed quick checks (scaled), records caught/missed, and restores the file. Never commits.
Results go to /verif/tools/mutants_result.json. /repo must be clean when this starts.
"""
import json, subprocess, sys, time, os

R = "/repo/src/"
M = [
 # id, properties expected to catch, file, old, new
 ("m01-pivot-offset", ["C01","C08"], "ranger.rs", "let offset = (num_local_values * (i + 1)) / config.split_factor;", "let offset = (num_local_values * i) / config.split_factor;"),
 ("m02-diff-filter-gt", ["C01","C04"], "ranger.rs", "&& their_entry.value() >= our_entry.value()", "&& their_entry.value() > our_entry.value()"),
 ("m03-anchor-lt1", ["C01"], "ranger.rs", "if num_local_values <= 1 || fingerprint == Fingerprint::empty() {", "if num_local_values < 1 || fingerprint == Fingerprint::empty() {"),
 ("m04-put-lt", ["C02","C01"], "ranger.rs", "if entry.value() <= prefix_entry.value() {", "if entry.value() < prefix_entry.value() {"),
 ("m05-prune-gt", ["C02"], "ranger.rs", "|value| entry.value() >= value)?;", "|value| entry.value() > value)?;"),
 ("m06-no-namespace-check", ["C03"], "sync.rs", "if entry.namespace() != expected_namespace {", "if false && entry.namespace() != expected_namespace {"),
 ("m07-future-ge", ["C03"], "sync.rs", "if entry.timestamp() > now + MAX_TIMESTAMP_FUTURE_SHIFT {", "if entry.timestamp() >= now + MAX_TIMESTAMP_FUTURE_SHIFT {"),
 ("m08-skip-author-sig", ["C03"], "sync.rs", "        author.verify(&bytes, &self.author_signature)?;\n", "        let _ = author;\n"),
 ("m09-limit-gt", ["C05"], "store/fs/query.rs", "if self.count >= limit {", "if self.count > limit {"),
 ("m10-latest-lt", ["C05"], "store/util.rs", "if entry.timestamp() > last.timestamp() {", "if entry.timestamp() < last.timestamp() {"),
 ("m11-bykey-exact-254", ["C05"], "store/fs/bounds.rs", "let end = (ns.to_bytes(), key.clone(), [255u8; 32]);", "let end = (ns.to_bytes(), key.clone(), [127u8; 32]);"),
 ("m12-sticky-sync-and", ["C14"], "actor.rs", "state.sync = state.sync || opts.sync;", "state.sync = state.sync && opts.sync;"),
 ("m13-sync-gate-off", ["C14"], "actor.rs", "        anyhow::ensure!(state.sync, \"sync is not enabled for replica\");\n", ""),
 ("m14-cache-size-6", ["C17"], "store.rs", "NonZeroUsize::new(5)", "NonZeroUsize::new(6)"),
 ("m15-peers-no-rev", ["C17"], "store/fs.rs", "for result in tables.namespace_peers.get(namespace.as_bytes())?.rev() {", "for result in tables.namespace_peers.get(namespace.as_bytes())? {"),
 ("m16-migration-older-ts", ["C18"], "store/fs/migrations.rs", "if timestamp >= e.0 {", "if timestamp <= e.0 {"),
 ("m17-migration-skip-inverted", ["C18","C05"], "store/fs/migrations.rs", "if !by_key_table.is_empty()? {", "if by_key_table.is_empty()? {"),
 ("m18-tiebreak-flipped", ["C11"], "engine/state.rs", "if self_node_id.as_bytes() > other_node_id.as_bytes() {", "if self_node_id.as_bytes() < other_node_id.as_bytes() {"),
 ("m19-accept-while-accepting", ["C11"], "engine/state.rs", "Origin::Accept => AcceptOutcome::Reject(AbortReason::AlreadySyncing),", "Origin::Accept => AcceptOutcome::Allow,"),
 ("m20-resync-any-reason", ["C11"], "engine/state.rs", "if matches!(reason, SyncReason::SyncReport) {", "if true {"),
 ("m21-everything-except-any", ["C15","C12"], "store.rs", "patterns.iter().all(|pattern| !pattern.matches(key))", "!patterns.iter().all(|pattern| pattern.matches(key))"),
 ("m22-prefix-as-exact", ["C15"], "store.rs", "FilterKind::Prefix(prefix) => key.as_ref().starts_with(prefix),", "FilterKind::Prefix(prefix) => key.as_ref() == &prefix[..],"),
 ("m23-merge-replaces", ["C07"], "sync.rs", "if matches!(self, Capability::Read(_)) && matches!(other, Capability::Write(_)) {", "if !matches!(other, Capability::Write(_)) || matches!(self, Capability::Read(_)) {"),
 ("m24-remove-while-open", ["C16"], "store/fs.rs", "if self.open_replicas.contains(namespace) {", "if false && self.open_replicas.contains(namespace) {"),
 ("m25-remove-keeps-peers", ["C16"], "store/fs.rs", "            tables.namespace_peers.remove_all(namespace.as_bytes())?;\n", ""),
 ("m26-decoder-le", ["C09","C10"], "net/codec.rs", "if src.len() < 4 + frame_len {", "if src.len() < 3 + frame_len {"),
 ("m27-no-size-limit", ["C09"], "net/codec.rs", "            frame_len <= MAX_MESSAGE_SIZE,", "            frame_len <= usize::MAX,"),
 ("m28-news-ge", ["C13"], "heads.rs", ".map(|ts_theirs| *ts_ours > ts_theirs)", ".map(|ts_theirs| *ts_ours >= ts_theirs)"),
 ("m29-event-for-not-inserted", ["C12","C03"], "ranger.rs", "                    if let InsertOutcome::Inserted { .. } = outcome {\n                        on_insert_cb(self, entry, content_status).await;\n                    }", "                    let _ = outcome;\n                    on_insert_cb(self, entry, content_status).await;"),
 ("m30-download-negated", ["C12"], "sync.rs", "                            let should_download = download_policy.matches(entry.entry());", "                            let should_download = !download_policy.matches(entry.entry());"),
 ("m31-close-negated", ["C14"], "actor.rs", "                if state.handles == 0 {\n                    let _ = e.remove_entry();\n                    debug!(namespace = %namespace.fmt_short(), \"close\");\n                    true\n                } else {\n                    false\n                }", "                if state.handles == 0 {\n                    let _ = e.remove_entry();\n                    debug!(namespace = %namespace.fmt_short(), \"close\");\n                    false\n                } else {\n                    true\n                }"),
 ("m32-flush-no-commit", ["C06","C14"], "store/fs.rs", "        if let CurrentTransaction::Write(w) = std::mem::take(&mut self.transaction) {\n            w.commit()?;\n        }\n        Ok(())", "        if let CurrentTransaction::Write(w) = std::mem::take(&mut self.transaction) {\n            drop(w);\n        }\n        Ok(())"),
 ("m33-hold-not-taken", ["C06"], "store/fs.rs", "        self.store.hold_age_commit += 1;\n        let res = crate::ranger::put_with_prefix_deletion(self, entry);\n        self.store.hold_age_commit -= 1;", "        let res = crate::ranger::put_with_prefix_deletion(self, entry);"),
 ("m34-bob-no-abort", ["C10"], "net/codec.rs", "                            writer\n                                .send(Message::Abort { reason })\n                                .await\n                                .map_err(|e| self.fail(e))?;\n", ""),
 ("m35-alice-abort-ok", ["C10"], "net/codec.rs", "            Message::Abort { reason } => {\n                return Err(ConnectError::remote_abort(reason));\n            }", "            Message::Abort { reason } => {\n                let _ = reason;\n                break;\n            }"),
 ("m36-heads-min", ["C13"], "store/fs.rs", "Some(existing) => e.timestamp() >= existing.value().0,", "Some(existing) => e.timestamp() <= existing.value().0,"),
 ("m37-wraparound-first-half-whole", ["C08","C01"], "store/fs.rs", "                    None,\n                    Some(range.y().to_byte_tuple()),\n", "                    None,\n                    None,\n"),
 ("m38-parents-skip-markers", ["C02","C04"], "store/fs.rs", "let entry = get_exact(table, namespace, author, &key, true);", "let entry = get_exact(table, namespace, author, &key, false);"),
 ("m39-connect-abort-ignored", ["C11"], "engine/live.rs", "                if !self.state.is_connecting(&namespace, &peer) =>", "                if true || !self.state.is_connecting(&namespace, &peer) =>"),
 ("m40-shutdown-no-drain", ["C14"], "actor.rs", "        while self.action_rx.try_recv().is_ok() {}\n", ""),
 ("m41-range-end-not-clamped", ["C08"], "store/fs/bounds.rs", "Bound::Excluded(end.min(ns_end))", "Bound::Excluded(end)"),
 ("m42-range-start-not-clamped", ["C08"], "store/fs/bounds.rs", "Some(start) if start > ns_start => start,", "Some(start) => start,"),
 ("m43-state-entry-first-document", ["C11"], "engine/state.rs", "        self.0\n            .get_mut(namespace)\n            .map(|n| n.nodes.entry(node).or_default())", "        if !self.0.contains_key(namespace) {\n            return None;\n        }\n        self.0\n            .values_mut()\n            .next()\n            .map(|n| n.nodes.entry(node).or_default())"),
 ("m46-leave-keeps-sync-state", ["C11"], "engine/live.rs", "        if self.state.remove(&namespace) {", "        if self.state.is_syncing(&namespace) {"),
 ("m45-policy-of-last-document", ["C12","C15"], "store/fs.rs", "        let value = tables.download_policy.get(namespace.as_bytes())?;\n        Ok(match value {", "        let _ = namespace;\n        let value = tables.download_policy.last()?.map(|(_, v)| v);\n        Ok(match value {"),
 ("m44-is-connecting-any-peer", ["C11"], "engine/state.rs", "            .and_then(|state| state.nodes.get(node))\n            .map(|peer| {", "            .and_then(|state| state.nodes.values().next().filter(|_| state.nodes.contains_key(node)))\n            .map(|peer| {"),
]

def sh(cmd, timeout=None, **kw):
    try:
        return subprocess.run(cmd, shell=True, capture_output=True, text=True, timeout=timeout, **kw)
    except subprocess.TimeoutExpired as e:
        subprocess.run("pkill -9 -f 'target/release/sim run'", shell=True)
        class R: pass
        r = R(); r.returncode = 124; r.stdout = (e.stdout or b"").decode() if isinstance(e.stdout, bytes) else (e.stdout or ""); r.stderr = ""
        return r

def main():
    sel = sys.argv[1:]
    if sh("git -C /repo status --porcelain").stdout.strip():
        print("refusing: /repo working tree is not clean"); sys.exit(2)
    out_path = "/verif/tools/mutants_result.json"
    results = json.load(open(out_path)) if os.path.exists(out_path) else {}
    for mid, props, f, old, new in M:
        if sel and not any(mid.startswith(s) or s in props for s in sel):
            continue
        path = R + f
        src = open(path).read()
        if src.count(old) != 1:
            print(f"{mid}: SKIP (pattern found {src.count(old)} times)"); results[mid] = {"status": "pattern-mismatch"}; continue
        open(path, "w").write(src.replace(old, new))
        rec = {"file": "src/" + f, "expected": props, "checks": {}}
        try:
            b = sh("cd /verif && ./check build")
            if b.returncode != 0:
                rec["status"] = "does-not-compile"; print(f"{mid}: does not compile", flush=True); continue
            for p in props:
                t = time.time()
                r = sh(f"cd /verif && VERIF_SEED=0 ./check {p} quick", timeout=600)
                classes = [l.split()[1] for l in r.stdout.splitlines() if l.startswith("violation class=")]
                rec["checks"][p] = {"exit": r.returncode, "classes": classes, "wall_s": round(time.time() - t, 1)}
                print(f"{mid}: {p} exit={r.returncode} {classes[:3]} ({time.time()-t:.0f}s)", flush=True)
            rec["status"] = "caught" if any(c["exit"] == 1 for c in rec["checks"].values()) else "MISSED"
        finally:
            open(path, "w").write(src)
            results[mid] = rec
            json.dump(results, open(out_path, "w"), indent=1)
    sh("cd /verif && ./check build")
    print("summary:", {k: v.get("status") for k, v in results.items()})

main()
