#!/usr/bin/env python3
"""Regenerates MANIFEST.json from the table below (kept next to the checks so they stay in step)."""
import json, subprocess

HOOK_COMMITS = subprocess.run(
    ["git", "-C", "/repo", "log", "--format=%H %s", "--grep=^verif-hooks:"],
    capture_output=True, text=True).stdout.strip().splitlines()

TECH = "deterministic simulation with fault injection (seeded schedule/fault search, reference-model oracle, minimised replay)"

# id -> (category, technique, text, note, design_ref)
CLAIMED = {
    "C02": ("exploration", TECH,
            "Seeded search over entry multisets, per-replica permutations with duplicates, ingress paths (local / remote / in-message), clean restarts, flushes and age-commit placements against the RefDoc reference model: every offer result and every dumped state (author-ordered query, key-ordered query and a point lookup of every held entry) must equal the model, and all replicas must agree with join(E); unrelated operations in between (writes to and removal of other documents, a policy, a peer registration, a read, a read-only capability import) must change nothing. The stores also hold neighbour documents (smaller and larger ids, ids ending in 0xFF) that take writes in between and must stay untouched. Exploration is the right level: the space of orders is unbounded, the model is tiny and exact.",
            "Trusted: redb, ed25519 (deterministic signatures), postcard; entries with equal (timestamp, hash) but different length are outside the generator. A second batch (offer-large) offers two replicas 130-600 entries of one author under one prefix plus parents, markers and a second author, each in its own order; one run in twelve of the small batch uses 6-27 authors.", "5 C02"),
    "C13": ("exploration", TECH,
            "Same histories as C02 (older entries after newer ones, duplicates, restarts, age-commits, the document removed and created again), plus unclean crashes (the model then follows what the reopened replica holds) and reopens from a file without the head table / by-key index (the heads of the neighbour documents are checked as well); at check points the reported heads must equal the greatest held timestamp per author and has_news_for_us must equal the brute-force count; plus encode/decode of head sets of up to 320 authors under size limits placed at, one below and one above item boundaries (pure part, labelled).",
            "Head key is not checked (the statement does not constrain it). Limits below the 1-byte minimum encoding are not generated.", "5 C13"),
}

CLAIMED.update({
    "C01": ("exploration", TECH,
            "Two real replicas (redb in-memory / SimDisk / file) are filled to reachable states and run one complete session through a serialise/deserialise hop, for both initiators, split_factor 2-8, max_set_size 1-8 and age-commit placements inside message processing; half of the runs with keys of one length so that the surviving sets are large enough to split ranges, a third with the shipped configuration; oracles: bounded message count, both sides equal join(A0 u B0) from RefDoc, mirrored sent/received counts, silent second session.",
            "The decisive batch has at most 24 entries per side; a second batch (pair-large) runs 30-250 entries per side with fixed-length keys (600 runs quick, 30000 thorough). One run in twelve of the small batch uses 6-27 authors.", "5 C01"),
    "C03": ("exploration", TECH,
            "An adversarial transport corrupts honest entries in flight (bit flips in every field and both signatures, swapped/transplanted/foreign signatures, foreign namespace, non-curve ids, empty/len mismatch, short identifiers, one signature copied over the other, new content forged under another author's id by a holder of the document secret, a valid entry of a different document, timestamps at bound-1/bound/bound+1 us with the replica's clock skewed accordingly, honestly signed entries a year, 2^63 us and u64::MAX ahead, an identifier naming another document with both signatures made by the attacked document's own secret, and an entry beyond the bound delivered after an honest entry exactly at the bound was accepted; the receiving store may own the author keys or hold the document read-only) and delivers each alone and at a random position of a reconciliation message next to valid entries, through the real store actor with subscribers; nothing forged may be stored, acknowledged or announced, the rest of the message must be applied, indexes and heads must stay consistent.",
            "Forgeries are mutations of honest entries; ed25519 itself is trusted.", "5 C03"),
    "C05": ("exploration", TECH,
            "Random queries (kind x author filter x key filter x sort x direction x include-empty x offset x limit, with the builder calls made in a plan-chosen order, plus point lookups) over stores with up to 4 documents, one of which may be removed and re-created in between, with other reads (lists, content hashes, heads, flush, peers, policy) and refused operations (removal of an open document, settings for a missing document) in between, against states reached through pruning histories (stale index rows), clean restarts and derived-index rebuilds, compared with a brute-force evaluator over the RefDoc model. The simulator contributes the states; the decisive dimension for the query itself is input generation, which the evidence says. A second batch (query-large) fills documents with 150-1100 entries and draws offsets and limits from {0,1,2,100,255,256,257,511,512,1000,1023,1024,1025,n-1,n,n+1,n/2}.",
            "Latest-per-key with an author filter: documentation and code disagree on filter-before/after grouping and the statement is silent, so either reading is accepted for that one combination; ties in timestamp accept any tied entry.", "5 C05"),
    "C07": ("exploration", TECH,
            "Histories of read/write capability imports (right and other documents), local/remote/in-message writes, open/close, clean restarts, flush+crash restarts and removal over 2-4 documents against the RefStore model: local writes succeed iff the model capability is Write, remote entries are accepted regardless, the listed capability never downgrades and never changes for another document. A second batch drives the real store actor with imports while documents are open (the actor keeps its own in-memory copy of the capability) and judges the replies to writes, deletions, secret export and imports.",
            "The actor batch was added after an independently seeded change (read-only import downgrading an open replica) was missed by the store-level batch alone.", "5 C07"),
    "C08": ("exploration", TECH,
            "The same two entry sets are reconciled over redb in-memory, SimDisk/file-backed redb (each holding neighbour documents with smaller and larger ids as well) and a harness-side BTreeMap backend that is driven by the crate's own reconciliation routine through a guarded adapter; postcard bytes of every message and the final sets must be identical; additionally get_first/get_range (all three shapes)/get_fingerprint/prefixes_of/remove_prefix_filtered are probed directly against the ordered-map definitions, range bounds taken from any namespace (they come from the peer), prefix arguments from the reconciled document.",
            "The entry fingerprint function is re-implemented in the harness (a change of it is a wire-compatibility break and is reported).", "5 C08"),
    "C15": ("exploration", TECH,
            "set/get_download_policy inside RefStore histories with clean restarts, flush+crash restarts, removal and re-creation: the policy read back equals the last one set, defaults otherwise, and is refused for a missing document; matching and the textual form of filters are compared with the brute-force definition (pure part, labelled); a third batch checks the should_download flag of remote-insert events of the real store actor against the policy in force under policy changes.",
            "Crash restarts are always preceded by a flush here (loss of unflushed data is C06's subject).", "5 C15"),
    "C16": ("exploration", TECH,
            "Histories over 2-4 documents with adjacent ids: writes, policies, peers, open/close, remove (open and closed), re-create, restarts. Removal must be refused while open, leave no observable residue (entries, both query paths, heads, peers, policy, capability), leave every other document byte-identical, and content_hashes must equal the hashes of all held entries at every observation. Half of the document and author ids end in 0xFF (carry case of the range bounds). A second batch removes documents through the real store actor (close counting, removal refused while any handle is open).",
            "Document ids are real public keys (crafted ids are not reachable through the public API for entries). In three quarters of the store-level runs 1-3 read-only documents with crafted ids (predecessor, successor, last byte FF and its successor, +-256, all-FF, all-zero of a real id) take settings (capability, policy, peers) next to the real ones; they must never show entries and removal on either side must not touch the other.", "5 C16"),
    "C17": ("exploration", TECH,
            "Registration sequences over 1-9 peers and 2-4 documents with restarts against an MRU-list model, with a strictly increasing simulated clock (decisive batch) and, as a separate batch, clock stalls and backward jumps between registrations; on file-backed stores the list must also survive a reopen from a database file in the redb 2.x format; a fifth of the disk-backed runs end with an unflushed crash after which every list must hold at most five distinct peers that were registered for that document.",
            "none beyond the common ones", "5 C17"),
    "C18": ("exploration", TECH,
            "At a restart the disk image is opened with plain redb and the derived tables (by-key index, heads, or both) are deleted, as in a file written by an older version; after reopening through Store (migrations run) heads and key-ordered queries must answer as before; reopening an up-to-date image 1-4 times must change no observation.",
            "On file-backed stores the database file is also rewritten in the redb 2.x tuple format (as iroh-docs 0.94..=0.98 wrote it), with or without the derived tables, and opened through Store::persistent (format conversion, then the populate-if-empty migrations); every crash point of the open that rebuilds the derived tables must, when opened again, answer like the uninterrupted open. The namespaces-v1 migration is not exercised.", "5 C18"),
})

CLAIMED.update({
    "C04": ("exploration", TECH,
            "2-5 nodes (SimDisk + store + real store actor, per-node skewed wall clock) take local writes and deletions; every local insert is broadcast through SimNet (deliver in any order, drop, duplicate, partition/heal) and applied by the remote-insert path as gossip::receive_loop does; sessions between pairs run over SimPipes frame by frame and are cut (EOF/reset) at any frame; nodes restart through an orderly shutdown, by dropping the actor without a shutdown (only the store's destructor runs) or by a crash (L1/L2); in half of the runs nodes first write dozens of keys whose broadcasts are all lost, and one node may hold the document read-only (a relay). Then faults stop and complete sessions along a random spanning tree must reach a silent round within nodes+1 rounds, with all nodes equal to the merge of what they held; without crashes also equal to the merge of all acknowledged local writes; no node ever holds an entry nobody wrote. A second batch runs the same histories with clock skew far beyond the future bound and judges the safety oracles only.",
            "iroh-gossip delivery and QUIC are stubbed; the live actor's dial decisions are C11's subject. Clock skew is kept within the future bound (4 min). Acknowledged writes are predicted from the requests (an accepted deletion is a marker whether or not it found anything), not learned from the nodes; in runs with crashes every write acknowledged by a node after its last unclean crash must still be accounted for. Every node runs with a content-status callback and every remote-insert event is checked.", "5 C04"),
    "C06": ("fault_enumeration", "deterministic simulation: per sampled history complete enumeration of crash points x loss models x age-commit placements on SimDisk, reference-model oracle",
            "For each sampled history on a persistent store the simulator enumerates every crash point (after every backend write / set_len / sync) under loss models L1 and L2 for every single placement of the age-based auto-commit at each internal store call of each operation (operations: capability import, offers on three paths, multi-entry messages, policies, peer registrations, removal, flush, and every read path: queries, lists, point lookups, heads, peers, policy, author key, content hashes) (thorough: sampled L3/torn images, EIO/ENOSPC, more double placements); each reopened image must open, equal a state the live store passed through between two complete operations not older than the last flush/read, and have consistent lookups, query paths and heads. A second batch (actor-crash, exploration) drives the real store actor on a SimDisk (pipelined requests from several clients, flush requests, the 500 ms flush timer, reads that commit) and kills it at a plan-chosen instant with or without letting it drain its inbox: the reopened image (all writes / synced writes only) must equal the state after some whole request not older than the last acknowledged flush.",
            "redb's commit protocol and recovery are trusted (crashes during the two writes that create the database are excluded). The histories themselves are sampled; the per-history crash x placement space is exhaustive. A third batch (crash-long) runs histories of 60-220 operations that hardly ever commit, so that hundreds of modifications pile up in one transaction, with every crash point x loss model judged and age-commit placements sampled. One short history in forty also enumerates the crash points of the very first open of a new database: every image that plain redb accepts must open as the empty store.", "5 C06"),
    "C09": ("exploration", TECH,
            "Stream part: real protocol messages are framed by the real codec and reach the real frame reader through a SimPipe under plan-chosen release sizes and read chunks, truncation after any byte, single-byte corruption, oversized and understated length prefixes: clean streams must decode to the input, truncated ones to a prefix followed by end or error, oversized prefixes to an error or need-more-data, a frame whose prefix understates its payload to an error, never a bogus message or a panic. Pure part (labelled, not simulation): round trips and hostile bytes for signed entries, author heads, tickets, capabilities, filters, policies; the three pinned encodings are recomputed.",
            "Frames are produced as the sessions produce them (one FramedWrite::send per message). One stream in 2500 carries a message of 70 KB - 24 MiB (far below the frame size limit) and must round-trip.", "5 C09"),
    "C10": ("exploration", TECH,
            "The initiating or accepting side runs against a real local store actor over SimPipes; the other side is the real counterpart or a scripted peer sending up to 6 frames over {Init known/unknown (a third of them already carrying entries), Sync, made-up ranges, Abort, garbage, oversized, truncated} then close; streams are chunked and cut (EOF/reset) after any byte in either direction, or inside the k-th frame just after its length prefix / just before its end (a stream that ends or is reset strictly inside a frame must be reported as an error); the local replica is closed, sync-disabled or its actor shut down (awaited, queued ahead of the session's next request, or queued behind another client's waiting request) before any delivered frame; the accept callback allows or declines. Oracles: no panic (including collecting the acceptor's outcome), once the accept callback has allowed a session the acceptor names that document with its outcome however the session ends, termination once nothing is in flight, protocol-violating frames make the session fail, a declined request sends Abort and leaves the store unchanged, mutual success has mirrored counts.",
            "Mirrored counts are only demanded when no stream cut fired (a transport that accepts bytes, drops them and then signals a clean end cannot be detected by either end of this protocol). A second batch (session-enum) is an enumeration, not a sample: every combination of side x accept outcome x local fault (none or one of four kinds before frame 0-2) x scripted peer of up to 2 (thorough: 3) frames over 13 representative frames.", "5 C10"),
    "C11": ("exploration", TECH,
            "Two or three real LiveActors (real store actors; Endpoint/Gossip/blob store constructed but idle) in any id order that sync one or two documents, every (document, pair) being a lane with its own oracles while the other lanes carry traffic; a guarded dial seam hands every dial to the driver which decides delivery, loss or breakage of each request, delivery or loss of declines, and independent ok/failed completion of both ends of each session, plus neighbour-up and sync-report events; safety after every step (no two sessions in progress, exactly one accept on a mutual simultaneous dial, exactly one follow-up dial after a refused news report, NotFound for unknown documents, for documents held but not synced, for documents the node has left, and after a failed start) and progress at quiescence (both idle, able to dial and to accept). A second batch (coord-real) runs every dial as the real run_alice and every delivered request as the real BobState::run + into_outcome over SimPipes that the driver releases frame by frame, cuts or resets, while in a third of the runs a replica is closed or has its sync switch flipped underneath its live actor.",
            "Connection handling of connect_and_sync / handle_connection is replaced by the seam (in coord the session results are synthetic, in coord-real they come from the real wire sessions). Changing which documents are syncing mid-session is outside the property's quantifier.", "5 C11"),
    "C12": ("exploration", TECH,
            "One real store actor with 0-4 subscribers (channel capacities 1-32) that the driver drains, pauses, unsubscribes or drops at plan-chosen instants (also while the actor is blocked sending to them); local inserts/deletions, valid/superseded/badly signed remote inserts, reconciliation messages interleaved with local writes, policy changes; in half of the runs a neighbouring document of the same store with its own subscriber and policy takes writes and policy changes in between; a third document may share a subscriber's channel and then be closed completely; capability imports on the open document (which may start read-only), additional handles opened and released, the sync switch; every subscriber must have received exactly the applied entries, once, in application order, with the right variant, peer, content status and download flag.",
            "A subscriber that never drains is outside the documented contract and is not injected (paused ones are resumed when the actor blocks on them). A second batch (swarm-events) runs the swarm histories - real sessions between nodes that have a content-status callback installed - and checks every remote-insert event for document, provider, the provider's content status and the download flag.", "5 C12"),
    "C14": ("exploration", TECH,
            "1-3 clients pipeline 6-60 requests into one real store actor (its unchanged run loop polled on the simulator's paused runtime); every reply is compared with a sequential model applied in send order: handle counting, close result, gates for not-open / sync-off / read-only, sticky sync, FIFO visibility, get-many snapshots consumed after later writes, shutdown returning a store (and a disk image) with every acknowledged write; the model also predicts get_state (handles, sync, subscriber count), set/get download policy, register/list useful peers, has-news, the lists of documents and authors, the content-hash report and author-key import/export/delete (a local write needs its author's key); documents may start read-only; a third of the disk-backed runs end in a crash judged against per-request snapshots; faults: reply receivers dropped before the answer (for reads and, less often, for state-changing requests, which must still take effect), streams dropped, flush timer firing between batches, shutdown with requests queued behind it.",
            "Because the inbox is FIFO the linearizability check degenerates to replay of the sequential model in send order. drop_replica with more than one handle is not generated (the statement does not define its effect on the handle count).", "5 C14"),
})

NOT_YET = {}

def main():
    props = [json.loads(l) for l in open("/verif/properties.jsonl")]
    checks = []
    na = []
    for p in props:
        pid = p["id"]
        if pid in CLAIMED:
            cat, tech, text, note, ref = CLAIMED[pid]
            checks.append({
                "property_id": pid,
                "quick_cmd": f"./check {pid} quick",
                "thorough_cmd": f"./check {pid} thorough",
                "evidence_file": f"/verif/evidence/{pid}.json",
                "replay_cmd_template": "./check replay {path}",
                "engine": "sim",
                "level_claimed": {"category": cat, "text": text, "design_ref": f"DESIGN.md §{ref}"},
                "level_note": note,
                "technique": tech,
            })
        else:
            na.append({"property_id": pid, "reason": NOT_YET.get(pid, "check not built yet in this round (planned in DESIGN.md §5); not claimed until it runs clean and is shown sensitive")})
    m = {
        "version": 1,
        "setup_cmd": "./check build",
        "hooks": {
            "guard": "cargo feature verif-hooks (off by default)",
            "enable": "the simulator crate /verif/sim depends on iroh-docs by path (/repo) with features=[\"verif-hooks\"]; RUSTFLAGS --cfg tokio_unstable and tokio/test-util apply to the simulator build only",
            "baseline_off_cmd": "cd /repo && (cargo nextest run --workspace --no-fail-fast --tool-config-file pb:/w/lib/nextest.toml --profile pb --test-threads 8 --offline || cargo test --workspace --no-fail-fast --offline)",
            "source_commits": [l.split()[0] for l in HOOK_COMMITS],
            "add_only": True,
        },
        "engines": [{
            "name": "sim",
            "path": "/verif/sim",
            "serves_properties": sorted(CLAIMED.keys()),
            "kind_free_text": "deterministic simulator: paused current-thread tokio runtime with seeded select!, SimDisk under redb, SimPipe/SimNet transports, simulated wall clock, plan generation from one PRNG (VERIF_SEED), reference models as oracles, ddmin minimisation, JSON replay files",
        }],
        "checks": checks,
        "not_applicable": na,
        "notes": "Every check rebuilds the simulator (and iroh-docs with hooks on) from /repo's working tree via cargo, offline. Exit 0 = held, 1 = VIOLATION line(s) with a replay file, 2 = harness error. Known findings: /verif/known_findings.json.",
    }
    json.dump(m, open("/verif/MANIFEST.json", "w"), indent=1)
    print("claimed", len(checks), "not claimed", len(na))

main()
