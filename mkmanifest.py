#!/usr/bin/env python3
"""Regenerates MANIFEST.json from the table below (kept next to the checks so they stay in step)."""
import json, subprocess

HOOK_COMMITS = subprocess.run(
    ["git", "-C", "/repo", "log", "--format=%H %s", "--grep=^verif-hooks:"],
    capture_output=True, text=True).stdout.strip().splitlines()

TECH = "deterministic simulation with fault injection (seeded schedule/fault search, reference-model oracle, minimised replay)"

# id -> (category, technique, text, note, design_ref)
CLAIMED = {
    "C02": ("exploration", TECH,
            "Seeded search over entry multisets, per-replica permutations with duplicates, ingress paths (local / remote / in-message), clean restarts, flushes and age-commit placements against the RefDoc reference model: every offer result and every dumped state must equal the model, and all replicas must agree with join(E). Exploration is the right level: the space of orders is unbounded, the model is tiny and exact.",
            "Trusted: redb, ed25519 (deterministic signatures), postcard; entries with equal (timestamp, hash) but different length are outside the generator.", "5 C02"),
    "C13": ("exploration", TECH,
            "Same histories as C02 (older entries after newer ones, duplicates, restarts, age-commits); at check points the reported heads must equal the greatest held timestamp per author and has_news_for_us must equal the brute-force count; plus encode/decode of head sets under size limits (pure part, labelled).",
            "Head key is not checked (the statement does not constrain it). Limits below the 1-byte minimum encoding are not generated.", "5 C13"),
}

NOT_YET = {}

def main():
    props = [json.loads(l) for l in open("/verif/properties.jsonl")]
    checks = []
    na = []
    for p in props:
        pid = p["id"]
        if pid in CLAIMED:
            cat, tech, text, note, ref = CLAIMED[pid]
            checks.append({
                "property_id": pid,
                "quick_cmd": f"./check {pid} quick",
                "thorough_cmd": f"./check {pid} thorough",
                "evidence_file": f"/verif/evidence/{pid}.json",
                "replay_cmd_template": "./check replay {path}",
                "engine": "sim",
                "level_claimed": {"category": cat, "text": text, "design_ref": f"DESIGN.md §{ref}"},
                "level_note": note,
                "technique": tech,
            })
        else:
            na.append({"property_id": pid, "reason": NOT_YET.get(pid, "check not built yet in this round (planned in DESIGN.md §5); not claimed until it runs clean and is shown sensitive")})
    m = {
        "version": 1,
        "setup_cmd": "./check build",
        "hooks": {
            "guard": "cargo feature verif-hooks (off by default)",
            "enable": "the simulator crate /verif/sim depends on iroh-docs by path (/repo) with features=[\"verif-hooks\"]; RUSTFLAGS --cfg tokio_unstable and tokio/test-util apply to the simulator build only",
            "baseline_off_cmd": "cd /repo && (cargo nextest run --workspace --no-fail-fast --tool-config-file pb:/w/lib/nextest.toml --profile pb --test-threads 8 --offline || cargo test --workspace --no-fail-fast --offline)",
            "source_commits": [l.split()[0] for l in HOOK_COMMITS],
            "add_only": True,
        },
        "engines": [{
            "name": "sim",
            "path": "/verif/sim",
            "serves_properties": sorted(CLAIMED.keys()),
            "kind_free_text": "deterministic simulator: paused current-thread tokio runtime with seeded select!, SimDisk under redb, SimPipe/SimNet transports, simulated wall clock, plan generation from one PRNG (VERIF_SEED), reference models as oracles, ddmin minimisation, JSON replay files",
        }],
        "checks": checks,
        "not_applicable": na,
        "notes": "Every check rebuilds the simulator (and iroh-docs with hooks on) from /repo's working tree via cargo, offline. Exit 0 = held, 1 = VIOLATION line(s) with a replay file, 2 = harness error. Known findings: /verif/known_findings.json.",
    }
    json.dump(m, open("/verif/MANIFEST.json", "w"), indent=1)
    print("claimed", len(checks), "not claimed", len(na))

main()
